------------------------------ MODULE HGMSplit ------------------------------
(***************************************************************************)
(* The split loop of tempest.cluster.HierarchicalGaussianMixture.fit, its   *)
(* label assignment and predict, over an abstract point set 1..n.           *)
(*                                                                          *)
(* The numerical part (the weighted EM fits of the parent / two-component   *)
(* child model, their BIC values, and the labels the child model predicts)  *)
(* is NOT modelled: it is a nondeterministic oracle.  For each evaluated    *)
(* cluster the oracle answers                                               *)
(*    imp : the BIC improvement parent_bic - child_bic, as an order rank    *)
(*    thr : the (per-cluster) BIC threshold, as an order rank               *)
(*    c1  : the subset of the cluster that the child model labels 0         *)
(*          (the rest is labelled 1; either side may be empty / undersized) *)
(* Ranks: -1 = NaN (every comparison false), 0 = -infinity, >= 1 finite.    *)
(*                                                                          *)
(* The oracle is a FUNCTION OF THE CLUSTER (the set of its points): the     *)
(* mixture fits of the code are seeded identically, so the answer for a     *)
(* cluster does not depend on when, how often or in which order it is asked.*)
(* The variable `oracle` is that (partial) function, extended on the first  *)
(* consultation of a cluster (improvement) / the first request for its      *)
(* partition, and reused afterwards.  The property is about the DECISIONS   *)
(* taken from these answers (which splits are accepted, the labelling, K),  *)
(* not about the protocol of consultations: an implementation may evaluate  *)
(* a cluster once and remember it, or re-evaluate it in every pass.         *)
(*                                                                          *)
(* One action per step of the code:                                         *)
(*   BeginIter  `while iteration < max_iterations: iteration += 1`          *)
(*   SkipSmall  `if len(indices) < min_points: continue`                    *)
(*   Evaluate   parent/child fit, improvement test, child-size test         *)
(*   AcceptBest `clusters.pop(best_parent_idx); clusters.extend(best_split)`*)
(*   Stop       `if best_split is None: break`                              *)
(*   CapStop    the while condition fails                                   *)
(*   Finalize   `labels[indices] = cluster_idx`, `n_clusters_`              *)
(*   Predict    argmax of K component posteriors (or nearest-centre         *)
(*              fallback) for one query                                     *)
(*                                                                          *)
(* Parameters n, minPts, maxIter are state variables fixed in Init (so one  *)
(* TLC run covers a family, and HGMTrace can set them per recorded trace).  *)
(***************************************************************************)
EXTENDS Integers, Sequences, FiniteSets, TLC

CONSTANTS Ns,          \* set of point-set sizes
          MinPtsSet,   \* set of min_points values (>= 1)
          MaxIterSet,  \* set of max_iterations values (cap on K is max_iterations + 1)
          R,           \* number of distinct "above threshold" improvement ranks the oracle may use
          LowKinds,    \* the "not above threshold" answers the oracle may use: a subset of {"nan", "neginf", "thr"}
          Variant      \* "intended" (= as coded, the code conforms) or a seeded wrong variant "Mut_..."

VARIABLES n, minPts, maxIter,
          pc,        \* "while" | "for" | "final" | "done" | "predicted"
          clusters,  \* sequence of sets of point ids; position = label + 1
          iter,      \* `iteration`
          idx,       \* 1-based position of the for loop over clusters
          best,      \* [imp, thr, parent, c1, c2]  (parent = 0: best_split is None)
          oracle,    \* the oracle answers used so far: cluster -> [imp, thr, known, c1] (known: partition requested)
          log,       \* ghost: every oracle consultation of the reference loop, in its order
          splits,    \* ghost: every accepted split [it, parent, ids, c1, c2]
          labels,    \* point -> label after Finalize (<<>> before)
          K,         \* n_clusters_ (-1 before Finalize)
          query, pred

vars == <<n, minPts, maxIter, pc, clusters, iter, idx, best, oracle, log, splits, labels, K, query, pred>>

NaN    == -1
NegInf == 0
ThrGen == 1      \* rank of the threshold in generator mode

NoBest == [imp |-> NegInf, thr |-> NegInf, parent |-> 0, c1 |-> {}, c2 |-> {}]
NoQuery == [kind |-> "none", k |-> -1]
NoOracle == <<>>     \* the function with empty domain

\* IEEE "a > b" on ranks: false as soon as one side is NaN
Gt(a, b) == a # NaN /\ b # NaN /\ a > b

-----------------------------------------------------------------------------
InitWith(nn, mp, mi) ==
    /\ n = nn /\ minPts = mp /\ maxIter = mi
    /\ pc = "while"
    /\ clusters = << 1..nn >>
    /\ iter = 0
    /\ idx = 0
    /\ best = NoBest
    /\ oracle = NoOracle
    /\ log = <<>>
    /\ splits = <<>>
    /\ labels = <<>>
    /\ K = -1
    /\ query = NoQuery
    /\ pred = -1

Init == \E nn \in Ns, mp \in MinPtsSet, mi \in MaxIterSet : InitWith(nn, mp, mi)

\* while iteration < self.max_iterations: iteration += 1; best_* = None
BeginIter ==
    /\ pc = "while"
    /\ IF Variant = "Mut_CapOffByOne" THEN iter <= maxIter ELSE iter < maxIter
    /\ iter' = iter + 1
    /\ idx' = 1
    /\ best' = NoBest
    /\ pc' = "for"
    /\ UNCHANGED <<n, minPts, maxIter, clusters, oracle, log, splits, labels, K, query, pred>>

CapStop ==
    /\ pc = "while"
    /\ ~(IF Variant = "Mut_CapOffByOne" THEN iter <= maxIter ELSE iter < maxIter)
    /\ pc' = "final"
    /\ UNCHANGED <<n, minPts, maxIter, clusters, iter, idx, best, oracle, log, splits, labels, K, query, pred>>

\* if len(indices) < min_points: continue
SkipSmall ==
    /\ pc = "for" /\ idx <= Len(clusters)
    /\ Variant # "Mut_NoSizeGuard"
    /\ Cardinality(clusters[idx]) < minPts
    /\ idx' = idx + 1
    /\ UNCHANGED <<n, minPts, maxIter, pc, clusters, iter, best, oracle, log, splits, labels, K, query, pred>>

\* does the code call child_gmm.predict for this candidate?
Asked(imp, thr) ==
    IF Variant = "Mut_GeThreshold"
    THEN imp # NaN /\ thr # NaN /\ imp >= thr /\ Gt(imp, best.imp)
    ELSE Gt(imp, thr) /\ Gt(imp, best.imp)

\* the oracle after cluster C answered (imp, thr) and - if its partition was requested - c1
Known(C) == C \in DOMAIN oracle
Remember(C, imp, thr, asked, c1) ==
    LET ent == IF asked THEN [imp |-> imp, thr |-> thr, known |-> TRUE, c1 |-> c1]
               ELSE IF Known(C) THEN [oracle[C] EXCEPT !.imp = imp, !.thr = thr]
               ELSE [imp |-> imp, thr |-> thr, known |-> FALSE, c1 |-> {}]
    IN  [D \in DOMAIN oracle \cup {C} |-> IF D = C THEN ent ELSE oracle[D]]

\* One candidate evaluation with the oracle's answers (imp, thr, c1).
EvaluateWith(imp, thr, c1) ==
    /\ pc = "for" /\ idx <= Len(clusters)
    /\ (Variant # "Mut_NoSizeGuard" => Cardinality(clusters[idx]) >= minPts)
    /\ LET C     == clusters[idx]
           asked == Asked(imp, thr)
           c2    == C \ c1
           ok    == /\ asked
                    /\ \/ Variant = "Mut_NoChildSize"
                       \/ (Cardinality(c1) >= minPts /\ Cardinality(c2) >= minPts)
       IN  /\ c1 \subseteq C
           /\ (~asked => c1 = {})          \* predict not called: no partition to choose
           /\ best' = IF ok THEN [imp |-> imp, thr |-> thr, parent |-> idx, c1 |-> c1, c2 |-> c2] ELSE best
           /\ oracle' = Remember(C, imp, thr, asked, c1)
           /\ log' = Append(log, [it |-> iter, pos |-> idx, ids |-> C, imp |-> imp, thr |-> thr,
                                  asked |-> asked, c1 |-> c1])
    /\ idx' = idx + 1
    /\ UNCHANGED <<n, minPts, maxIter, pc, clusters, iter, splits, labels, K, query, pred>>

\* generator mode: the oracle is arbitrary within the bounds on the FIRST consultation of a cluster (improvement) and
\* on the first request for its partition; afterwards it repeats itself (a function of the cluster by construction).
\* "Mut_ForgetfulOracle" is the seeded wrong variant in which it does not (refuted by OracleIsFunction).
LowImps == {r \in {NaN, NegInf, ThrGen} : \/ r = NaN /\ "nan" \in LowKinds
                                          \/ r = NegInf /\ "neginf" \in LowKinds
                                          \/ r = ThrGen /\ "thr" \in LowKinds}
GenImps == LowImps \cup (ThrGen + 1)..(ThrGen + R)
Remembers == Variant # "Mut_ForgetfulOracle"

Evaluate ==
    /\ pc = "for" /\ idx <= Len(clusters)
    /\ LET C == clusters[idx] IN
       \E imp \in (IF Remembers /\ Known(C) THEN {oracle[C].imp} ELSE GenImps) :
          IF Asked(imp, ThrGen)
          THEN \E c1 \in (IF Remembers /\ Known(C) /\ oracle[C].known THEN {oracle[C].c1} ELSE SUBSET C) :
                   EvaluateWith(imp, ThrGen, c1)
          ELSE EvaluateWith(imp, ThrGen, {})

\* clusters.pop(best_parent_idx); clusters.extend(best_split)
Pop(s, i) == SubSeq(s, 1, i - 1) \o SubSeq(s, i + 1, Len(s))

AcceptBest ==
    /\ pc = "for" /\ idx = Len(clusters) + 1
    /\ best.parent # 0
    /\ clusters' = Pop(clusters, best.parent) \o << best.c1, best.c2 >>
    /\ splits' = Append(splits, [it |-> iter, parent |-> best.parent, ids |-> clusters[best.parent],
                                 c1 |-> best.c1, c2 |-> best.c2])
    /\ pc' = "while"
    /\ UNCHANGED <<n, minPts, maxIter, iter, idx, best, oracle, log, labels, K, query, pred>>

\* if best_split is None: break
Stop ==
    /\ pc = "for" /\ idx = Len(clusters) + 1
    /\ best.parent = 0
    /\ pc' = "final"
    /\ UNCHANGED <<n, minPts, maxIter, clusters, iter, idx, best, oracle, log, splits, labels, K, query, pred>>

\* labels[indices] = cluster_idx ; n_clusters_ = len(clusters)
LabelOf(p) == (CHOOSE j \in 1..Len(clusters) : p \in clusters[j]) - 1

Finalize ==
    /\ pc = "final"
    /\ labels' = [p \in 1..n |-> IF Variant = "Mut_LabelFromOne" THEN LabelOf(p) + 1 ELSE LabelOf(p)]
    /\ K' = Len(clusters)
    /\ pc' = "done"
    /\ UNCHANGED <<n, minPts, maxIter, clusters, iter, idx, best, oracle, log, splits, query, pred>>

\* predict: argmax over the K component posteriors (Gaussian path) or argmin over K centre
\* distances (fallback path): either way an index of a length-K array.  For a query placed on the
\* centre of component k of a well-separated scripted model the winner is k; for any other query the
\* winner is whatever the numerical model says (oracle).  Ghost variables are cleared so that the
\* predicted states do not multiply the behaviours.
Queries == [kind : {"centre"}, k : 0..(K - 1)] \cup {[kind |-> "any", k |-> -1]}

PredictWith(q, w) ==
    /\ pc \in {"done", "predicted"}
    /\ w \in 0..(K - 1)
    /\ (q.kind = "centre" => w = q.k)
    /\ query' = q
    /\ pred' = w
    /\ pc' = "predicted"
    /\ log' = <<>> /\ splits' = <<>> /\ best' = NoBest /\ iter' = 0 /\ idx' = 0 /\ oracle' = NoOracle
    /\ UNCHANGED <<n, minPts, maxIter, clusters, labels, K>>

Predict == \E q \in Queries : \E w \in 0..(K - 1) : PredictWith(q, w)

\* fit() called again on the SAME object (the sampler's Trainer refits one clusterer every cluster_every iterations,
\* the Resampler predicts with it in between): the constructor's parameters stay, everything a previous fit or
\* predict produced is re-initialised - nothing (number of clusters, per-cluster densities, labels) carries over.
\* The action adds transitions, not states: every invariant below therefore holds along object HISTORIES
\* fit -> predict* -> fit -> ..., and the replay binds it by chaining terminal behaviours on one real object.
Refit ==
    /\ pc \in {"done", "predicted"}
    /\ \E nn \in Ns :
         /\ n' = nn
         /\ clusters' = << 1..nn >>
    /\ pc' = "while"
    /\ iter' = 0 /\ idx' = 0 /\ best' = NoBest /\ oracle' = NoOracle /\ log' = <<>> /\ splits' = <<>> /\ labels' = <<>>
    /\ K' = -1 /\ query' = NoQuery /\ pred' = -1
    /\ UNCHANGED <<minPts, maxIter>>

Next == BeginIter \/ CapStop \/ SkipSmall \/ Evaluate \/ AcceptBest \/ Stop \/ Finalize \/ Predict \/ Refit

Spec == Init /\ [][Next]_vars

-----------------------------------------------------------------------------
(* Properties (C15, hierarchical sentence) *)

TypeOK ==
    /\ n \in Nat /\ minPts \in Nat /\ maxIter \in Nat
    /\ pc \in {"while", "for", "final", "done", "predicted", "accepted", "rejected", "inconclusive"}
    /\ iter \in Nat /\ idx \in Nat
    /\ \A j \in 1..Len(clusters) : clusters[j] \subseteq 1..n
    /\ best.parent \in 0..Len(clusters)

\* the clusters always partition the training set (no point lost or duplicated by pop/extend)
ClustersPartition ==
    /\ UNION {clusters[j] : j \in 1..Len(clusters)} = 1..n
    /\ \A i, j \in 1..Len(clusters) : i # j => clusters[i] \cap clusters[j] = {}

Finished == pc \in {"done", "predicted"}

\* every training point gets exactly one label, in [0, K), and it is the position of its cluster
LabelsPartition ==
    Finished => /\ DOMAIN labels = 1..n
                /\ \A p \in 1..n : /\ labels[p] \in 0..(K - 1)
                                   /\ p \in clusters[labels[p] + 1]
                                   /\ \A j \in 1..Len(clusters) : p \in clusters[j] => j = labels[p] + 1

\* never more clusters than the configured cap (cap = max_iterations + 1)
CapRespected ==
    /\ Len(clusters) <= maxIter + 1
    /\ (Finished => K = Len(clusters) /\ K >= 1 /\ K <= maxIter + 1)

\* no accepted split leaves a child below the minimum size
SplitChildrenOK ==
    /\ \A s \in 1..Len(splits) : /\ Cardinality(splits[s].c1) >= minPts
                                 /\ Cardinality(splits[s].c2) >= minPts
                                 /\ splits[s].c1 \cup splits[s].c2 = splits[s].ids
                                 /\ splits[s].c1 \cap splits[s].c2 = {}
    /\ (best.parent # 0 => Cardinality(best.c1) >= minPts /\ Cardinality(best.c2) >= minPts)
    \* hence, once a split happened, every cluster has at least minPts points
    /\ (Len(clusters) > 1 => \A j \in 1..Len(clusters) : Cardinality(clusters[j]) >= minPts)

\* a cluster below the minimum size is never split - not even evaluated
NeverSplitSmall ==
    /\ \A s \in 1..Len(splits) : Cardinality(splits[s].ids) >= minPts
    /\ \A e \in 1..Len(log) : Cardinality(log[e].ids) >= minPts

\* the oracle is a function of the cluster: every consultation of the loop got the answer recorded for that cluster
\* (the same improvement / threshold every time, the same partition whenever one was requested)
OracleIsFunction ==
    \A e \in 1..Len(log) :
        /\ log[e].ids \in DOMAIN oracle
        /\ oracle[log[e].ids].imp = log[e].imp /\ oracle[log[e].ids].thr = log[e].thr
        /\ (log[e].asked => oracle[log[e].ids].known /\ oracle[log[e].ids].c1 = log[e].c1)

\* the accepted candidate qualified: improvement strictly above its threshold
AcceptedAboveThreshold ==
    best.parent # 0 => Gt(best.imp, best.thr)

\* predictions are labels in [0, K) for any query
PredictInRange ==
    pc = "predicted" => pred \in 0..(K - 1)

\* one split per iteration: number of clusters = accepted splits + 1 <= iteration + 1
OneSplitPerIteration ==
    Len(clusters) <= iter + 1 \/ pc \in {"predicted", "accepted", "rejected", "inconclusive"}

=============================================================================
