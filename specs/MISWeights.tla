----------------------------- MODULE MISWeights -----------------------------
(***************************************************************************)
(* Balance-heuristic (multiple importance sampling) weights and evidence of *)
(* tempest.state_manager.StateManager.compute_logw_and_logz in EXACT        *)
(* rational arithmetic.                                                     *)
(*                                                                          *)
(* A history is a sequence of batches [n, b, m, ks]:                        *)
(*    n   batch size n_t >= 1                                               *)
(*    b   temperature   beta_t = b/2,          b \in {0,1,2}                *)
(*    m   evidence      logZ_t = m * ln 2                                   *)
(*    ks  n even integers, logL_s = k * ln 2   (sorted: order inside a      *)
(*        batch is a symmetry of the formula, see PermInvariant)            *)
(* and the requested temperature is beta_final = bf/2.  Because k is even   *)
(* every tempered density exp(beta_t*logL - logZ_t) = 2^(b*k/2 - m) is a    *)
(* power of two, so                                                         *)
(*    w_s = 2^(bf*k_s/2) / SUM_t (n_t/N) * 2^(b_t*k_s/2 - m_t)              *)
(*    Z   = (1/N) * SUM_s w_s          W_s = w_s / SUM_r w_r                *)
(* are exact rationals <<num, den>> (reduced, den > 0).                     *)
(*                                                                          *)
(* The actions follow the code's steps:                                     *)
(*    Mix        lines 464-469  b = logl*beta - logz ; + log(n_t/N) ;       *)
(*                              B = logaddexp.reduce(axis=1)                *)
(*    Weigh(f)   lines 458,471,473   A = logl*beta_final ; logw = A - B ;   *)
(*                              logz = logaddexp.reduce(logw) - log(size)   *)
(*    Normalise  lines 475-476  logw -= logaddexp.reduce(logw)              *)
(* TLC's state dump is the list of test cases replayed into the real code.  *)
(*                                                                          *)
(* Variant = "intended" is the formula of the property.  The other values   *)
(* are seeded WRONG formulas; TLC must refute each of them (non-vacuity of  *)
(* the invariants below).                                                   *)
(***************************************************************************)
EXTENDS Integers, Sequences, FiniteSets, TLC

CONSTANTS Ts,         \* set of history lengths T explored
          NMax,       \* batch sizes 1..NMax
          KMax,       \* k ranges over the even integers in -KMax..KMax
          MMax,       \* m ranges over the even integers in -MMax..MMax
          Bs,         \* set of b (beta_t = b/2)
          Bfs,        \* set of bf (beta_final = bf/2)
          ShiftMax,   \* ShiftInvariant is checked for the even c # 0 in -ShiftMax..ShiftMax
          Variant,    \* "intended" | "NoLogZ" | "NoMixW" | "MixT" | "MeanT" | "MaxNorm"
          SampleMod,  \* keep only histories with (Hash + SampleSalt) % SampleMod = 0  (1 = keep all)
          SampleSalt

VARIABLES pc, hist, bf, mixB, w, z, W

vars == <<pc, hist, bf, mixB, w, z, W>>

\* (the .cfg syntax has no negative literals, hence the symmetric ranges)
Ks     == {k \in (0 - KMax)..KMax : k % 2 = 0}
Ms     == {m \in (0 - MMax)..MMax : m % 2 = 0}
Shifts == {c \in (0 - ShiftMax)..ShiftMax : c % 2 = 0 /\ c # 0}

-----------------------------------------------------------------------------
(* Exact non-negative rationals <<num, den>>, always reduced, den > 0.       *)
(* TLC integers are 32 bit and TLC reports overflow as an error, never       *)
(* silently; all operations cancel common factors before multiplying.        *)

RECURSIVE GCD(_, _)
GCD(a, b) == IF b = 0 THEN a ELSE GCD(b, a % b)

LCM(a, b) == (a \div GCD(a, b)) * b

Q(n, d) == LET g == GCD(n, d) IN <<n \div g, d \div g>>      \* n >= 0, d > 0

Zero == <<0, 1>>
One  == <<1, 1>>

QInt(n) == <<n, 1>>

QPow2(x) == IF x >= 0 THEN <<2 ^ x, 1>> ELSE <<1, 2 ^ (0 - x)>>

QMul(p, q) ==
    LET g1 == GCD(p[1], q[2])
        g2 == GCD(q[1], p[2])
    IN  <<(p[1] \div g1) * (q[1] \div g2), (p[2] \div g2) * (q[2] \div g1)>>

QDiv(p, q) == QMul(p, <<q[2], q[1]>>)                        \* q > 0

QLe(p, q) == p[1] * q[2] <= q[1] * p[2]                      \* only used on small operands

\* order-independent sum of a sequence of rationals: common denominator first
RECURSIVE LCMTo(_, _)
LCMTo(s, i) == IF i = 0 THEN 1 ELSE LCM(LCMTo(s, i - 1), s[i][2])

RECURSIVE NumTo(_, _, _)
NumTo(s, i, L) == IF i = 0 THEN 0 ELSE NumTo(s, i - 1, L) + s[i][1] * (L \div s[i][2])

QSum(s) == LET L == LCMTo(s, Len(s)) IN Q(NumTo(s, Len(s), L), L)

RECURSIVE QMaxTo(_, _)
QMaxTo(s, i) == IF i = 1 THEN s[1]
                ELSE LET r == QMaxTo(s, i - 1) IN IF QLe(r, s[i]) THEN s[i] ELSE r
QMax(s) == QMaxTo(s, Len(s))

\* concatenation of a sequence of sequences (per-batch -> flat sample order)
RECURSIVE FlatTo(_, _)
FlatTo(x, t) == IF t = 0 THEN <<>> ELSE FlatTo(x, t - 1) \o x[t]
Flat(x) == FlatTo(x, Len(x))

ASSUME RationalSanity ==
    /\ QSum(<<<<1, 2>>, <<1, 3>>, <<1, 6>>>>) = One
    /\ QMul(<<3, 4>>, <<2, 9>>) = <<1, 6>>
    /\ QDiv(<<3, 4>>, <<3, 8>>) = <<2, 1>>
    /\ QPow2(-3) = <<1, 8>> /\ QPow2(0) = One /\ QPow2(4) = <<16, 1>>
    /\ QMax(<<<<1, 2>>, <<2, 3>>, <<3, 5>>>>) = <<2, 3>>
    /\ Q(0, 7) = Zero

-----------------------------------------------------------------------------
(* The formula, in the shape of the code *)

T(h) == Len(h)

RECURSIVE NTo(_, _)
NTo(h, t) == IF t = 0 THEN 0 ELSE NTo(h, t - 1) + h[t].n
NTot(h) == NTo(h, Len(h))                                    \* N_total = n_per_iter.sum()

\* b[s,t] = logl_s * beta_t - logz_t        (as an exponent of two; b*k is even)
TermExp(bt, k) ==
    IF Variant = "NoLogZ" THEN (bt.b * k) \div 2
                          ELSE (bt.b * k) \div 2 - bt.m

\* log_mixture_weights = log(n_per_iter) - log(N_total)
MixWeight(h, t) ==
    CASE Variant = "NoMixW" -> One
      [] Variant = "MixT"   -> Q(h[t].n, T(h))
      [] OTHER              -> Q(h[t].n, NTot(h))

Component(h, t, k) == QMul(MixWeight(h, t), QPow2(TermExp(h[t], k)))

\* B_s = logaddexp.reduce(b_weighted, axis=1)
Mixture(h, k) == QSum([t \in 1..T(h) |-> Component(h, t, k)])

MixAll(h) == [t \in 1..T(h) |-> [i \in 1..h[t].n |-> Mixture(h, h[t].ks[i])]]

\* logw = A - B   with A = logl * beta_final
UnnormFrom(h, f, B) ==
    [t \in 1..T(h) |-> [i \in 1..h[t].n |-> QDiv(QPow2((f * h[t].ks[i]) \div 2), B[t][i])]]

\* logz_new = logaddexp.reduce(logw) - log(logw.size)
EvidFrom(h, ww) ==
    LET fl == Flat(ww)
    IN  QDiv(QSum(fl), QInt(IF Variant = "MeanT" THEN T(h) ELSE Len(fl)))

\* logw - logaddexp.reduce(logw)
NormFrom(ww) ==
    LET fl == Flat(ww)
        S  == IF Variant = "MaxNorm" THEN QMax(fl) ELSE QSum(fl)
    IN  [t \in DOMAIN ww |-> [i \in DOMAIN ww[t] |-> QDiv(ww[t][i], S)]]

UnnormW(h, f) == UnnormFrom(h, f, MixAll(h))
Evid(h, f)    == EvidFrom(h, UnnormW(h, f))
NormW(h, f)   == NormFrom(UnnormW(h, f))

-----------------------------------------------------------------------------
(* State machine: enumerate a history, then the three steps of the code *)

Sorted(n) == {s \in [1..n -> Ks] : \A i \in 1..(n - 1) : s[i] <= s[i + 1]}

BatchSet ==
    UNION {{[n |-> n, b |-> b, m |-> m, ks |-> ks] : b \in Bs, m \in Ms, ks \in Sorted(n)} : n \in 1..NMax}

RECURSIVE KHash(_, _)
KHash(ks, i) == IF i = 0 THEN 0 ELSE KHash(ks, i - 1) + (2 * i + 1) * (ks[i] + 23)

RECURSIVE HashTo(_, _)
HashTo(h, t) ==
    IF t = 0 THEN 0
    ELSE ((HashTo(h, t - 1) * 31) % 65521)
         + (7 * h[t].n + 11 * h[t].b + 13 * (h[t].m + 5) + KHash(h[t].ks, h[t].n)) * (t + 1)
Hash(h) == HashTo(h, Len(h))

Keep(h) == SampleMod = 1 \/ (Hash(h) + SampleSalt) % SampleMod = 0

Init ==
    /\ pc = "hist"
    /\ \E TT \in Ts : hist \in {h \in [1..TT -> BatchSet] : Keep(h)}
    /\ bf = -1
    /\ mixB = <<>>
    /\ w = <<>>
    /\ z = Zero
    /\ W = <<>>

Mix ==
    /\ pc = "hist"
    /\ mixB' = MixAll(hist)
    /\ pc' = "mixed"
    /\ UNCHANGED <<hist, bf, w, z, W>>

Weigh(f) ==
    /\ pc = "mixed"
    /\ bf' = f
    /\ w' = UnnormFrom(hist, f, mixB)
    /\ z' = EvidFrom(hist, w')
    /\ pc' = "weighed"
    /\ UNCHANGED <<hist, mixB, W>>

Normalise ==
    /\ pc = "weighed"
    /\ W' = NormFrom(w)
    /\ pc' = "done"
    /\ UNCHANGED <<hist, bf, mixB, w, z>>

Next == Mix \/ (\E f \in Bfs : Weigh(f)) \/ Normalise

Spec == Init /\ [][Next]_vars

-----------------------------------------------------------------------------
(* Properties (C04) - all evaluated on completed computations *)

Done == pc = "done"

IsQ(q) == /\ q[1] \in Nat /\ q[2] \in Nat \ {0} /\ GCD(q[1], q[2]) = 1

TypeOK ==
    /\ pc \in {"hist", "mixed", "weighed", "done"}
    /\ Len(hist) \in Ts
    /\ \A t \in 1..Len(hist) : hist[t].n = Len(hist[t].ks)
    /\ IsQ(z)
    /\ pc # "hist" => \A t \in 1..Len(hist) : \A i \in 1..hist[t].n : IsQ(mixB[t][i]) /\ mixB[t][i][1] > 0
    /\ Done => /\ bf \in Bfs
               /\ \A t \in 1..Len(hist) : \A i \in 1..hist[t].n :
                      /\ IsQ(w[t][i]) /\ w[t][i][1] > 0          \* finite and strictly positive
                      /\ IsQ(W[t][i]) /\ W[t][i][1] > 0

\* The property text, as equations (cross-multiplied; no Variant here):
\*   w_s * SUM_t (n_t/N) 2^(b_t k_s/2 - m_t) = 2^(bf k_s/2) ;  Z * N = SUM_s w_s ;  W_s * SUM_r w_r = w_s
Formula ==
    Done =>
        LET N  == NTot(hist)
            Sw == QSum(Flat(w))
        IN  /\ \A t \in 1..Len(hist) : \A i \in 1..hist[t].n :
                 LET k == hist[t].ks[i]
                     D == QSum([u \in 1..Len(hist) |->
                                  QMul(Q(hist[u].n, N), QPow2((hist[u].b * k) \div 2 - hist[u].m))])
                 IN  /\ QMul(w[t][i], D) = QPow2((bf * k) \div 2)
                     /\ QMul(W[t][i], Sw) = w[t][i]
            /\ QMul(z, QInt(N)) = Sw

\* returned normalised weights sum to exactly one
SumOne == Done => QSum(Flat(W)) = One

\* the order of iterations is irrelevant: permuting the batches permutes the weights, Z unchanged
PermInvariant ==
    Done =>
        \A p \in Permutations(1..Len(hist)) :
            LET h2 == [t \in 1..Len(hist) |-> hist[p[t]]]
            IN  /\ NormW(h2, bf)   = [t \in 1..Len(hist) |-> W[p[t]]]
                /\ UnnormW(h2, bf) = [t \in 1..Len(hist) |-> w[p[t]]]
                /\ Evid(h2, bf)    = z

\* rescaling the likelihood by 2^c (logL + c ln2, hence logZ_t + beta_t c ln2):
\* same normalised weights, evidence multiplied by 2^(bf c / 2)
ShiftHist(h, c) ==
    [t \in 1..Len(h) |-> [h[t] EXCEPT !.ks = [i \in 1..h[t].n |-> h[t].ks[i] + c],
                                      !.m  = h[t].m + (h[t].b * c) \div 2]]

ShiftInvariant ==
    Done =>
        \A c \in Shifts :
            LET h2 == ShiftHist(hist, c)
            IN  /\ NormW(h2, bf) = W
                /\ Evid(h2, bf)  = QMul(z, QPow2((bf * c) \div 2))

\* the mixture only sees (beta_t, logZ_t, n_t/N): splitting a batch into two batches with the
\* same temperature and evidence changes nothing (this is what "batch-size weighted" means)
SplitHist(h, t, j) ==
    [u \in 1..(Len(h) + 1) |->
        IF u < t THEN h[u]
        ELSE IF u = t     THEN [h[t] EXCEPT !.n = j, !.ks = SubSeq(h[t].ks, 1, j)]
        ELSE IF u = t + 1 THEN [h[t] EXCEPT !.n = h[t].n - j, !.ks = SubSeq(h[t].ks, j + 1, h[t].n)]
        ELSE h[u - 1]]

SplitInvariant ==
    Done =>
        \A t \in 1..Len(hist) : \A j \in 1..(hist[t].n - 1) :
            LET h2 == SplitHist(hist, t, j)
            IN  /\ Flat(NormW(h2, bf)) = Flat(W)
                /\ Evid(h2, bf) = z

\* T = 1 degenerates to self-normalised importance sampling from the tempered batch:
\*   w_s = 2^m 2^((bf-b)k_s/2),  W_s proportional to 2^((bf-b)k_s/2),  Z = 2^m * mean_s 2^((bf-b)k_s/2)
SingleBatchSNIS ==
    (Done /\ Len(hist) = 1) =>
        LET h == hist[1]
            r == [i \in 1..h.n |-> QPow2(((bf - h.b) * h.ks[i]) \div 2)]
            R == QSum(r)
        IN  /\ \A i \in 1..h.n : /\ w[1][i] = QMul(QPow2(h.m), r[i])
                                 /\ QMul(W[1][i], R) = r[i]
            /\ z = QMul(QPow2(h.m), QDiv(R, QInt(h.n)))

\* dominant-term enclosure of the mixture: max_t c_t <= SUM_t c_t <= T * max_t c_t
\* (the oracle of the +-1e6 spread family of the binding, where the sum cannot be formed exactly)
Enclosure ==
    pc # "hist" =>
        \A t \in 1..Len(hist) : \A i \in 1..hist[t].n :
            LET cs == [u \in 1..Len(hist) |-> Component(hist, u, hist[t].ks[i])]
                mx == QMax(cs)
            IN  /\ QLe(mx, mixB[t][i])
                /\ QLe(mixB[t][i], QMul(QInt(Len(hist)), mx))

=============================================================================
