----------------------------- MODULE MISWeights -----------------------------
(***************************************************************************)
(* Balance-heuristic (multiple importance sampling) weights and evidence of *)
(* tempest.state_manager.StateManager.compute_logw_and_logz in EXACT        *)
(* rational arithmetic.                                                     *)
(*                                                                          *)
(* A history is a sequence of batches [n, b, m, ks]:                        *)
(*    n   batch size n_t >= 1                                               *)
(*    b   temperature   beta_t = b/2,          b \in {0,1,2}                *)
(*    m   evidence      logZ_t = m * ln 2                                   *)
(*    ks  n even integers, logL_s = k * ln 2   (sorted: a weight depends on  *)
(*        its own k only, so the order inside a batch is a symmetry; the    *)
(*        binding replays ascending and descending order)                   *)
(* and the requested temperature is beta_final = bf/2.  Because k is even   *)
(* every tempered density exp(beta_t*logL - logZ_t) = 2^(b*k/2 - m) is a    *)
(* power of two, so                                                         *)
(*    w_s = 2^(bf*k_s/2) / SUM_t (n_t/N) * 2^(b_t*k_s/2 - m_t)              *)
(*    Z   = (1/N) * SUM_s w_s          W_s = w_s / SUM_r w_r                *)
(* are exact rationals <<num, den>> (reduced, den > 0).                     *)
(*                                                                          *)
(* The actions follow the code's steps:                                     *)
(*    Mix        lines 464-469  b = logl*beta - logz ; + log(n_t/N) ;       *)
(*                              B = logaddexp.reduce(axis=1)                *)
(*    Weigh(f)   lines 458,471,473   A = logl*beta_final ; logw = A - B ;   *)
(*                              logz = logaddexp.reduce(logw) - log(size)   *)
(*    Normalise  lines 475-476  logw -= logaddexp.reduce(logw)              *)
(* TLC's state dump is the list of test cases replayed into the real code.  *)
(*                                                                          *)
(* Object reuse (Reuse = TRUE).  The property speaks about the history that *)
(* is stored NOW.  One StateManager object lives on: after a completed      *)
(* query the stored history may be REPLACED wholesale (update_from_dict,     *)
(* load_state, Sampler.load_state, run(resume_state_path=..)) or grow by a  *)
(* Commit, and is then queried again.  mixK/mixB/mixD are what an            *)
(* implementation may keep between queries (they do not depend on           *)
(* beta_final); the intended semantics drops them whenever the stored       *)
(* history changes.  Variant "StaleMix" drops them only in Commit - the      *)
(* results then belong to a history that is no longer stored.               *)
(*                                                                          *)
(* Variant = "intended" is the formula of the property.  The other values   *)
(* are seeded WRONG formulas; TLC must refute each of them (non-vacuity of  *)
(* the invariants below).                                                   *)
(***************************************************************************)
EXTENDS Integers, Sequences, FiniteSets, TLC

CONSTANTS Ts,         \* set of history lengths T explored
          NMax,       \* batch sizes 1..NMax
          KMax,       \* k ranges over the even integers in -KMax..KMax
          MMax,       \* m ranges over the even integers in -MMax..MMax
          Bs,         \* set of b (beta_t = b/2)
          Bfs,        \* set of bf (beta_final = bf/2)
          ShiftMax,   \* ShiftInvariant is checked for the even c # 0 in -ShiftMax..ShiftMax
          Variant,    \* "intended" | "NoLogZ" | "NoMixW" | "MixT" | "MeanT" | "MaxNorm" | "StaleMix"
          Reuse,      \* TRUE: the object is reused (Replace / Commit after a completed query, at most twice)
          ReplMod,    \* Replace installs the histories with Hash % ReplMod = 0
          RepMax,     \* ReplicateInvariant is checked for R \in 2..RepMax
          SampleMod,  \* keep only histories with (Hash + SampleSalt) % SampleMod = 0  (1 = keep all)
          BatchMod,   \* build histories only from batches with (BHash + SampleSalt) % BatchMod = 0  (1 = all)
          SampleSalt  \* derived from VERIF_SEED

VARIABLES pc, hist, bf, mixK, mixB, mixD, w, z, W, gen

vars == <<pc, hist, bf, mixK, mixB, mixD, w, z, W, gen>>

\* (the .cfg syntax has no negative literals, hence the symmetric ranges)
Ks     == {k \in (0 - KMax)..KMax : k % 2 = 0}
Ms     == {m \in (0 - MMax)..MMax : m % 2 = 0}
Shifts == {c \in (0 - ShiftMax)..ShiftMax : c % 2 = 0 /\ c # 0}

-----------------------------------------------------------------------------
(* Exact non-negative rationals <<num, den>>, always reduced, den > 0.       *)
(* TLC integers are 32 bit and TLC reports overflow as an error, never       *)
(* silently; all operations cancel common factors before multiplying.        *)
(* Sequences are built with Append / \o so that TLC holds them as concrete   *)
(* tuples (a function constructor would be re-evaluated at every access).    *)

RECURSIVE GCD(_, _)
GCD(a, b) == IF b = 0 THEN a ELSE GCD(b, a % b)

LCM(a, b) == (a \div GCD(a, b)) * b

Q(n, d) == LET g == GCD(n, d) IN <<n \div g, d \div g>>      \* n >= 0, d > 0

Zero == <<0, 1>>
One  == <<1, 1>>

QInt(n) == <<n, 1>>

QPow2(x) == IF x >= 0 THEN <<2 ^ x, 1>> ELSE <<1, 2 ^ (0 - x)>>

QMul(p, q) ==
    LET g1 == GCD(p[1], q[2])
        g2 == GCD(q[1], p[2])
    IN  <<(p[1] \div g1) * (q[1] \div g2), (p[2] \div g2) * (q[2] \div g1)>>

QDiv(p, q) == QMul(p, <<q[2], q[1]>>)                        \* q > 0

QAdd(p, q) == LET L == LCM(p[2], q[2]) IN Q(p[1] * (L \div p[2]) + q[1] * (L \div q[2]), L)

QLe(p, q) == p[1] * q[2] <= q[1] * p[2]                      \* only used on small operands

\* order-independent sum of a sequence of rationals: common denominator first
RECURSIVE LCMTo(_, _)
LCMTo(s, i) == IF i = 0 THEN 1 ELSE LCM(LCMTo(s, i - 1), s[i][2])

RECURSIVE NumTo(_, _, _)
NumTo(s, i, L) == IF i = 0 THEN 0 ELSE NumTo(s, i - 1, L) + s[i][1] * (L \div s[i][2])

QSum(s) == LET L == LCMTo(s, Len(s)) IN Q(NumTo(s, Len(s), L), L)

RECURSIVE QMaxTo(_, _)
QMaxTo(s, i) == IF i = 1 THEN s[1]
                ELSE LET r == QMaxTo(s, i - 1) IN IF QLe(r, s[i]) THEN s[i] ELSE r
QMax(s) == QMaxTo(s, Len(s))

RECURSIVE QScaleTo(_, _, _)                                  \* << s[1]/d, ..., s[i]/d >>
QScaleTo(s, d, i) == IF i = 0 THEN <<>> ELSE Append(QScaleTo(s, d, i - 1), QDiv(s[i], d))

ASSUME RationalSanity ==
    /\ QSum(<<<<1, 2>>, <<1, 3>>, <<1, 6>>>>) = One
    /\ QAdd(<<1, 2>>, <<1, 3>>) = <<5, 6>>
    /\ QMul(<<3, 4>>, <<2, 9>>) = <<1, 6>>
    /\ QDiv(<<3, 4>>, <<3, 8>>) = <<2, 1>>
    /\ QPow2(-3) = <<1, 8>> /\ QPow2(0) = One /\ QPow2(4) = <<16, 1>>
    /\ QMax(<<<<1, 2>>, <<2, 3>>, <<3, 5>>>>) = <<2, 3>>
    /\ Q(0, 7) = Zero
    /\ QScaleTo(<<<<1, 2>>, <<3, 2>>>>, <<2, 1>>, 2) = <<<<1, 4>>, <<3, 4>>>>

-----------------------------------------------------------------------------
(* The formula, in the shape of the code.  Samples are kept in the flat      *)
(* order of get_history("logl", flat=True): batch after batch.               *)

RECURSIVE NTo(_, _)
NTo(h, t) == IF t = 0 THEN 0 ELSE NTo(h, t - 1) + h[t].n
NTot(h) == NTo(h, Len(h))                                    \* N_total = n_per_iter.sum()

RECURSIVE FlatKsTo(_, _)
FlatKsTo(h, t) == IF t = 0 THEN <<>> ELSE FlatKsTo(h, t - 1) \o h[t].ks
FlatKs(h) == FlatKsTo(h, Len(h))                             \* logl_all

\* b[s,t] = logl_s * beta_t - logz_t        (as an exponent of two; b*k is even)
TermExp(bt, k) ==
    IF Variant = "NoLogZ" THEN (bt.b * k) \div 2
                          ELSE (bt.b * k) \div 2 - bt.m

\* log_mixture_weights = log(n_per_iter) - log(N_total)   =  log(CoefNum / CoefDen)
CoefNum(h, t) == IF Variant = "NoMixW" THEN 1 ELSE h[t].n
CoefDen(h) ==
    CASE Variant = "NoMixW" -> 1
      [] Variant = "MixT"   -> Len(h)
      [] OTHER              -> NTot(h)

\* The log-sum-exp: a common power of two 2^-Off is factored out of the row (the code factors out
\* the row maximum), what remains is an integer sum.  B_s = MixInt / (CoefDen * 2^Off).
Off == KMax + MMax + ShiftMax

RECURSIVE MixIntTo(_, _, _)
MixIntTo(h, k, t) ==
    IF t = 0 THEN 0
    ELSE MixIntTo(h, k, t - 1) + CoefNum(h, t) * 2 ^ (TermExp(h[t], k) + Off)
MixInt(h, k) == MixIntTo(h, k, Len(h))

RECURSIVE MixSeqTo(_, _, _)
MixSeqTo(h, ks, s) == IF s = 0 THEN <<>> ELSE Append(MixSeqTo(h, ks, s - 1), MixInt(h, ks[s]))
MixAll(h) == LET ks == FlatKs(h) IN MixSeqTo(h, ks, Len(ks))

\* logw = A - B   with A = logl * beta_final :   2^a * CoefDen * 2^Off / MixInt
Weight(f, k, M, cd) ==
    LET a == (f * k) \div 2
    IN  IF a >= 0 THEN Q(cd * 2 ^ (Off + a), M)
                  ELSE Q(cd * 2 ^ Off, M * 2 ^ (0 - a))

RECURSIVE UnnormTo(_, _, _, _, _)
UnnormTo(f, ks, B, cd, s) ==
    IF s = 0 THEN <<>> ELSE Append(UnnormTo(f, ks, B, cd, s - 1), Weight(f, ks[s], B[s], cd))
UnnormFrom(h, f, B) == LET ks == FlatKs(h) IN UnnormTo(f, ks, B, CoefDen(h), Len(ks))

\* logz_new = logaddexp.reduce(logw) - log(logw.size)
EvidFrom(h, ww) == QDiv(QSum(ww), QInt(IF Variant = "MeanT" THEN Len(h) ELSE Len(ww)))

\* logw - logaddexp.reduce(logw)
NormFrom(ww) == QScaleTo(ww, IF Variant = "MaxNorm" THEN QMax(ww) ELSE QSum(ww), Len(ww))

UnnormW(h, f) == UnnormFrom(h, f, MixAll(h))
Evid(h, f)    == EvidFrom(h, UnnormW(h, f))
NormW(h, f)   == NormFrom(UnnormW(h, f))

-----------------------------------------------------------------------------
(* State machine: enumerate a history, then the three steps of the code *)

Sorted(n) == {s \in [1..n -> Ks] : \A i \in 1..(n - 1) : s[i] <= s[i + 1]}

RECURSIVE KHash(_, _)
KHash(ks, i) == IF i = 0 THEN 0 ELSE KHash(ks, i - 1) + (2 * i + 1) * (ks[i] + 23)

BHash(bt) == 7 * bt.n + 11 * bt.b + 13 * (bt.m + 5) + KHash(bt.ks, bt.n)

AllBatches ==
    UNION {{[n |-> n, b |-> b, m |-> m, ks |-> ks] : b \in Bs, m \in Ms, ks \in Sorted(n)} : n \in 1..NMax}

\* (sampling, quick tier only: a seed-dependent subset of the batches)
BatchSet == IF BatchMod = 1 THEN AllBatches
            ELSE {bt \in AllBatches : (BHash(bt) + SampleSalt) % BatchMod = 0}

RECURSIVE HashTo(_, _)
HashTo(h, t) ==
    IF t = 0 THEN 0
    ELSE ((HashTo(h, t - 1) * 31) % 65521)
         + BHash(h[t]) * (t + 1)
Hash(h) == HashTo(h, Len(h))

Keep(h) == SampleMod = 1 \/ (Hash(h) + SampleSalt) % SampleMod = 0

Init ==
    /\ pc = "hist"
    /\ \E TT \in Ts : hist \in {h \in [1..TT -> BatchSet] : Keep(h)}
    /\ bf = -1
    /\ mixK = <<>> /\ mixB = <<>> /\ mixD = 0
    /\ w = <<>>
    /\ z = Zero
    /\ W = <<>>
    /\ gen = 0

\* the beta_final-independent part: flattened logl, B and the mixture normaliser; kept if still there
Mix ==
    /\ pc = "hist"
    /\ IF mixB # <<>> THEN UNCHANGED <<mixK, mixB, mixD>>
       ELSE /\ mixK' = FlatKs(hist)
            /\ mixB' = MixAll(hist)
            /\ mixD' = CoefDen(hist)
    /\ pc' = "mixed"
    /\ UNCHANGED <<hist, bf, w, z, W, gen>>

Weigh(f) ==
    /\ pc = "mixed"
    /\ bf' = f
    /\ w' = UnnormTo(f, mixK, mixB, mixD, Len(mixK))
    /\ z' = EvidFrom(hist, w')
    /\ pc' = "weighed"
    /\ UNCHANGED <<hist, mixK, mixB, mixD, W, gen>>

Normalise ==
    /\ pc = "weighed"
    /\ W' = NormFrom(w)
    /\ pc' = "done"
    /\ UNCHANGED <<hist, bf, mixK, mixB, mixD, w, z, gen>>

\* --- object reuse: the stored history changes under a living object
GenMax == 2
MaxT == CHOOSE t \in Ts : \A u \in Ts : u <= t

ReplSet == UNION {{h \in [1..TT -> BatchSet] : Hash(h) % ReplMod = 0} : TT \in Ts}

Forget == /\ bf' = -1 /\ w' = <<>> /\ z' = Zero /\ W' = <<>>

\* update_from_dict / load_state / Sampler.load_state / resume: the whole history is replaced, no commit
Replace(h2) ==
    /\ Reuse /\ pc = "done" /\ gen < GenMax
    /\ h2 # hist
    /\ hist' = h2
    /\ IF Variant = "StaleMix" THEN UNCHANGED <<mixK, mixB, mixD>>
                               ELSE mixK' = <<>> /\ mixB' = <<>> /\ mixD' = 0
    /\ Forget
    /\ gen' = gen + 1
    /\ pc' = "hist"

\* commit_current_to_history: one more batch
Commit(bt) ==
    /\ Reuse /\ pc = "done" /\ gen < GenMax
    /\ Len(hist) < MaxT
    /\ hist' = Append(hist, bt)
    /\ mixK' = <<>> /\ mixB' = <<>> /\ mixD' = 0
    /\ Forget
    /\ gen' = gen + 1
    /\ pc' = "hist"

\* (guards first: the candidate sets are not even enumerated unless the object is reused and a query has completed)
DoReplace == Reuse /\ pc = "done" /\ gen < GenMax /\ \E h2 \in ReplSet : Replace(h2)
DoCommit  == Reuse /\ pc = "done" /\ gen < GenMax /\ \E bt \in BatchSet : Commit(bt)

Next == Mix \/ (\E f \in Bfs : Weigh(f)) \/ Normalise \/ DoReplace \/ DoCommit

Spec == Init /\ [][Next]_vars

-----------------------------------------------------------------------------
(* Properties (C04) - evaluated on completed computations *)

Done == pc = "done"

IsQ(q) == /\ q[1] \in Nat /\ q[2] \in Nat \ {0} /\ GCD(q[1], q[2]) = 1

TypeOK ==
    /\ pc \in {"hist", "mixed", "weighed", "done"}
    /\ Len(hist) \in Ts
    /\ \A t \in 1..Len(hist) : hist[t].n = Len(hist[t].ks)
    /\ IsQ(z)
    /\ gen \in 0..GenMax
    /\ Len(mixB) = Len(mixK)
    /\ \A s \in 1..Len(mixB) : mixB[s] > 0
    /\ Done => /\ bf \in Bfs
               /\ Len(w) = Len(W)
               /\ \A s \in 1..Len(w) : /\ IsQ(w[s]) /\ w[s][1] > 0     \* finite and strictly positive
                                       /\ IsQ(W[s]) /\ W[s][1] > 0

\* "For every STORED history": whatever happened to the object before (earlier queries, replaced
\* histories, commits), a completed query is the formula evaluated on the history stored now.
CurrentHistoryOnly ==
    /\ pc \in {"mixed", "weighed", "done"} =>
           /\ mixK = FlatKs(hist) /\ mixB = MixAll(hist) /\ mixD = CoefDen(hist)
    /\ Done => /\ Len(w) = NTot(hist)
               /\ w = UnnormW(hist, bf)
               /\ z = Evid(hist, bf)
               /\ W = NormW(hist, bf)

\* The property text, as equations (cross-multiplied, plain rationals, no Variant, no scaling):
\*   w_s * SUM_t (n_t/N) 2^(b_t k_s/2 - m_t) = 2^(bf k_s/2) ;  Z * N = SUM_s w_s ;  W_s * SUM_r w_r = w_s
RECURSIVE DeclMixTo(_, _, _, _)
DeclMixTo(h, k, N, t) ==
    IF t = 0 THEN Zero
    ELSE QAdd(DeclMixTo(h, k, N, t - 1), QMul(Q(h[t].n, N), QPow2((h[t].b * k) \div 2 - h[t].m)))

Formula ==
    Done =>
        LET N  == NTot(hist)
            ks == FlatKs(hist)
            Sw == QSum(w)
        IN  /\ Len(w) = N /\ Len(W) = N
            /\ \A s \in 1..N :
                 /\ QMul(w[s], DeclMixTo(hist, ks[s], N, Len(hist))) = QPow2((bf * ks[s]) \div 2)
                 /\ QMul(W[s], Sw) = w[s]
            /\ QMul(z, QInt(N)) = Sw

\* returned normalised weights sum to exactly one
SumOne == Done => QSum(W) = One

\* the order of iterations is irrelevant: permuting the batches permutes the weights, Z unchanged
RECURSIVE PermSeqTo(_, _, _)           \* << x[p[1]], ..., x[p[t]] >>
PermSeqTo(x, p, t) == IF t = 0 THEN <<>> ELSE Append(PermSeqTo(x, p, t - 1), x[p[t]])

\* per-batch slices of a flat per-sample sequence, permuted, concatenated again
RECURSIVE StartTo(_, _)
StartTo(h, t) == IF t = 1 THEN 0 ELSE StartTo(h, t - 1) + h[t - 1].n
RECURSIVE PermFlatTo(_, _, _, _)
PermFlatTo(x, h, p, t) ==
    IF t = 0 THEN <<>>
    ELSE PermFlatTo(x, h, p, t - 1) \o SubSeq(x, StartTo(h, p[t]) + 1, StartTo(h, p[t]) + h[p[t]].n)

PermInvariant ==
    Done =>
        \A p \in Permutations(1..Len(hist)) :
            (\E t \in 1..Len(hist) : p[t] # t) =>
                LET h2 == PermSeqTo(hist, p, Len(hist))
                IN  /\ NormW(h2, bf) = PermFlatTo(W, hist, p, Len(hist))
                    /\ Evid(h2, bf)  = z

\* rescaling the likelihood by 2^c (logL + c ln2, hence logZ_t + beta_t c ln2):
\* same normalised weights, evidence multiplied by 2^(bf c / 2)
RECURSIVE AddTo(_, _, _)
AddTo(ks, c, i) == IF i = 0 THEN <<>> ELSE Append(AddTo(ks, c, i - 1), ks[i] + c)

RECURSIVE ShiftTo(_, _, _)
ShiftTo(h, c, t) ==
    IF t = 0 THEN <<>>
    ELSE Append(ShiftTo(h, c, t - 1),
                [n |-> h[t].n, b |-> h[t].b, m |-> h[t].m + (h[t].b * c) \div 2,
                 ks |-> AddTo(h[t].ks, c, h[t].n)])
ShiftHist(h, c) == ShiftTo(h, c, Len(h))

ShiftInvariant ==
    Done =>
        \A c \in Shifts :
            LET h2 == ShiftHist(hist, c)
            IN  /\ NormW(h2, bf) = W
                /\ Evid(h2, bf)  = QMul(z, QPow2((bf * c) \div 2))

\* the mixture only sees (beta_t, logZ_t, n_t/N): splitting a batch into two batches with the
\* same temperature and evidence changes nothing (this is what "batch-size weighted" means)
SplitHist(h, t, j) ==
    SubSeq(h, 1, t - 1)
    \o << [n |-> j,          b |-> h[t].b, m |-> h[t].m, ks |-> SubSeq(h[t].ks, 1, j)],
          [n |-> h[t].n - j, b |-> h[t].b, m |-> h[t].m, ks |-> SubSeq(h[t].ks, j + 1, h[t].n)] >>
    \o SubSeq(h, t + 1, Len(h))

SplitInvariant ==
    Done =>
        \A t \in 1..Len(hist) : \A j \in 1..(hist[t].n - 1) :
            LET h2 == SplitHist(hist, t, j)
            IN  /\ NormW(h2, bf) = W
                /\ Evid(h2, bf)  = z

\* size: storing every sample of every batch R times (n_t -> R n_t, N -> R N) leaves the mixture weights
\* n_t/N, hence every unnormalised weight and Z, unchanged and divides every normalised weight by R.
\* (The binding uses it with R ~ 10^6 to reach histories of 10^7 sample-by-iteration entries.)
RECURSIVE RepSeqTo(_, _, _)            \* << x[1] (R times), x[2] (R times), ... >> up to length j
RepSeqTo(x, R, j) == IF j = 0 THEN <<>> ELSE Append(RepSeqTo(x, R, j - 1), x[(j - 1) \div R + 1])
RepSeq(x, R) == RepSeqTo(x, R, R * Len(x))

RECURSIVE RepHistTo(_, _, _)
RepHistTo(h, R, t) ==
    IF t = 0 THEN <<>>
    ELSE Append(RepHistTo(h, R, t - 1),
                [n |-> R * h[t].n, b |-> h[t].b, m |-> h[t].m, ks |-> RepSeq(h[t].ks, R)])
ReplicateHist(h, R) == RepHistTo(h, R, Len(h))

ReplicateInvariant ==
    Done =>
        \A R \in 2..RepMax :
            LET h2 == ReplicateHist(hist, R)
                uw == UnnormW(h2, bf)
            IN  /\ uw = RepSeq(w, R)
                /\ EvidFrom(h2, uw) = z
                /\ NormFrom(uw) = RepSeq(QScaleTo(W, QInt(R), Len(W)), R)

\* T = 1 degenerates to self-normalised importance sampling from the tempered batch:
\*   w_s = 2^m 2^((bf-b)k_s/2),  W_s proportional to 2^((bf-b)k_s/2),  Z = 2^m * mean_s 2^((bf-b)k_s/2)
RECURSIVE RatioTo(_, _, _)
RatioTo(h1, f, i) ==
    IF i = 0 THEN <<>> ELSE Append(RatioTo(h1, f, i - 1), QPow2(((f - h1.b) * h1.ks[i]) \div 2))

SingleBatchSNIS ==
    (Done /\ Len(hist) = 1) =>
        LET h == hist[1]
            r == RatioTo(h, bf, h.n)
            R == QSum(r)
        IN  /\ \A i \in 1..h.n : /\ w[i] = QMul(QPow2(h.m), r[i])
                                 /\ QMul(W[i], R) = r[i]
            /\ z = QMul(QPow2(h.m), QDiv(R, QInt(h.n)))

\* dominant-term enclosure of the mixture (c_(1) >= c_(2) >= ... the components in decreasing order):
\*     c_(1)  <=  SUM_t c_t  <=  c_(1) + (T-1) c_(2)  <=  T c_(1)
\* This is the oracle of the +-1e6 spread family of the binding, where the sum cannot be formed exactly.
RECURSIVE TermsTo(_, _, _)
TermsTo(h, k, t) ==
    IF t = 0 THEN <<>>
    ELSE Append(TermsTo(h, k, t - 1), CoefNum(h, t) * 2 ^ (TermExp(h[t], k) + Off))

RECURSIVE IntMaxTo(_, _, _)            \* max of seq[1..i] skipping index `skip` (0 if nothing is left)
IntMaxTo(seq, skip, i) ==
    IF i = 0 THEN 0
    ELSE LET r == IntMaxTo(seq, skip, i - 1) IN IF i # skip /\ seq[i] > r THEN seq[i] ELSE r

Enclosure ==
    pc # "hist" =>
        LET ks == mixK
        IN  \A s \in 1..Len(ks) :
                LET cs == TermsTo(hist, ks[s], Len(hist))
                    mx == IntMaxTo(cs, 0, Len(cs))
                    am == CHOOSE i \in 1..Len(cs) : cs[i] = mx
                    m2 == IntMaxTo(cs, am, Len(cs))
                IN  /\ mx <= mixB[s]
                    /\ mixB[s] <= mx + (Len(cs) - 1) * m2
                    /\ mx + (Len(cs) - 1) * m2 <= Len(cs) * mx

=============================================================================
