---------------------------- MODULE KernelCtlApa ----------------------------
(***************************************************************************)
(* Unbounded companion of KernelCtl.tla for Apalache: the controller's      *)
(* bounds hold for EVERY n_min, n_max >= 1 (also n_max < n_min), every      *)
(* sigma_0 > 0, every denominator D > 0, every adaptation increment and     *)
(* every occupancy pattern of (up to) three clusters - an inductive         *)
(* invariant, checked as  Init => IndInv  (length 0) and                     *)
(* IndInv /\ Next => IndInv'  (length 1).  The `trail` history variable of   *)
(* KernelCtl is dropped and the three step sizes are three integer           *)
(* variables; the adaptation increment is an arbitrary integer (its value    *)
(* depends on D and the acceptance level and does not matter for the bounds).*)
(*   apalache-mc check --init=Init    --inv=IndInv --length=0 --cinit=CInit  *)
(*   apalache-mc check --init=IndInit --inv=IndInv --length=1 --cinit=CInit  *)
(***************************************************************************)
EXTENDS Integers

CONSTANTS
    \* @type: Bool;
    Tpcn,
    \* @type: Int;
    D,
    \* @type: Int;
    S0,
    \* @type: Bool;
    Occ1,
    \* @type: Bool;
    Occ2,
    \* @type: Bool;
    Occ3,
    \* @type: Int;
    NMin,
    \* @type: Int;
    NMax

VARIABLES
    \* @type: Int;
    it,
    \* @type: Int;
    s1,
    \* @type: Int;
    s2,
    \* @type: Int;
    s3,
    \* @type: Bool;
    stopped

CInit ==
    /\ Tpcn \in BOOLEAN /\ Occ1 \in BOOLEAN /\ Occ2 \in BOOLEAN /\ Occ3 \in BOOLEAN
    /\ D \in Int /\ D > 0 /\ S0 \in Int /\ S0 > 0
    /\ NMin \in Int /\ NMin >= 1 /\ NMax \in Int /\ NMax >= 1

Cap == IF 99 * D < 100 * S0 THEN (99 * D) \div 100 ELSE S0
Floor == IF NMin < NMax THEN NMin ELSE NMax
Clip(v, lo, hi) == IF v < lo THEN lo ELSE IF v > hi THEN hi ELSE v
Start == IF Tpcn THEN Cap ELSE S0
Adapt(occ, s, dl) == IF ~occ THEN s ELSE IF Tpcn THEN Clip(s + dl, 0, Cap) ELSE s + dl

Init ==
    /\ it = 0
    /\ s1 = Start /\ s2 = Start /\ s3 = Start
    /\ stopped = FALSE

Next ==
    /\ ~stopped
    /\ it' = it + 1
    /\ \E d1 \in Int : s1' = Adapt(Occ1, s1, d1)
    /\ \E d2 \in Int : s2' = Adapt(Occ2, s2, d2)
    /\ \E d3 \in Int : s3' = Adapt(Occ3, s3, d3)
    /\ \E st \in BOOLEAN :
         /\ (it' < Floor => ~st)
         /\ (it' >= NMax => st)
         /\ stopped' = st

InBand(s) == s >= 0 /\ s <= Cap

IndInv ==
    /\ it >= 0 /\ it <= NMax
    /\ (~stopped => it < NMax)
    /\ (stopped => it >= Floor)
    /\ (Tpcn => (InBand(s1) /\ InBand(s2) /\ InBand(s3)))
    /\ (~Occ1 => s1 = Start) /\ (~Occ2 => s2 = Start) /\ (~Occ3 => s3 = Start)

\* negative control (must be REFUTED from Init: the tpCN step size starts AT the cap)
TooStrong == Tpcn => s1 < Cap

IndInit ==
    /\ it \in Int /\ s1 \in Int /\ s2 \in Int /\ s3 \in Int /\ stopped \in BOOLEAN
    /\ IndInv
=============================================================================
