----------------------------- MODULE Checkpoint -----------------------------
(***************************************************************************)
(* Checkpoint save protocol of SamplerCore.save_sampler_state as a sequence *)
(* of IO steps, with process death (Crash) enabled in every state.          *)
(*                                                                          *)
(* A file is absent, or holds the first `n` chunks of snapshot `snap`        *)
(* (complete iff n = Chunks).  Data written by the process sits in a user-   *)
(* space buffer until Flush; a crash loses the buffer and keeps what reached *)
(* the OS.  Protocol "atomic" (intended): open a temporary name, write,      *)
(* flush, fsync, close, rename onto the final name.  Protocol "inplace" (the *)
(* pinned tree's defect): open the final name with truncation and write.     *)
(*                                                                          *)
(* CrashSafe (C08): the final name never holds a truncated file, and once it *)
(* holds a complete checkpoint it keeps holding a complete one (the old or   *)
(* the new snapshot) whatever happens.                                       *)
(***************************************************************************)
EXTENDS Integers, Sequences, FiniteSets, TLC

CONSTANTS Chunks,     \* chunks per checkpoint file
          MaxSnap,    \* number of snapshots (saves) explored
          Protocol    \* "atomic" | "inplace"

VARIABLES disk,       \* [{"final","tmp"} -> [present, snap, n]]
          buf,        \* chunks written by the process but not yet flushed to the OS
          fh,         \* name of the open file, or "none"
          spc,        \* "idle" | "open" | "flushed" | "synced" | "closed"
          mem,        \* id of the state in memory (grows as the sampler iterates)
          saving,     \* snapshot id being saved
          alive

vars == <<disk, buf, fh, spc, mem, saving, alive>>

Absent == [present |-> FALSE, snap |-> 0, n |-> 0]
File(s, n) == [present |-> TRUE, snap |-> s, n |-> n]
Complete(f) == f.present /\ f.n = Chunks
Truncated(f) == f.present /\ f.n < Chunks

Target == IF Protocol = "atomic" THEN "tmp" ELSE "final"

Init ==
    /\ disk = [nm \in {"final", "tmp"} |-> Absent]
    /\ buf = 0 /\ fh = "none" /\ spc = "idle" /\ mem = 1 /\ saving = 0 /\ alive = TRUE

Iterate == alive /\ spc = "idle" /\ mem < MaxSnap /\ mem' = mem + 1 /\ UNCHANGED <<disk, buf, fh, spc, saving, alive>>

\* open(name, "wb"): creates or truncates
Open ==
    /\ alive /\ spc = "idle"
    /\ saving' = mem
    /\ fh' = Target
    /\ disk' = [disk EXCEPT ![Target] = File(mem, 0)]
    /\ buf' = 0 /\ spc' = "open"
    /\ UNCHANGED <<mem, alive>>

\* f.write(chunk): into the user-space buffer; the runtime may flush it at any time
Write ==
    /\ alive /\ spc = "open" /\ disk[fh].n + buf < Chunks
    /\ buf' = buf + 1
    /\ UNCHANGED <<disk, fh, spc, mem, saving, alive>>

AutoFlush ==
    /\ alive /\ spc = "open" /\ buf > 0
    /\ disk' = [disk EXCEPT ![fh] = File(saving, disk[fh].n + 1)]
    /\ buf' = buf - 1
    /\ UNCHANGED <<fh, spc, mem, saving, alive>>

Flush ==
    /\ alive /\ spc = "open" /\ disk[fh].n + buf = Chunks
    /\ disk' = [disk EXCEPT ![fh] = File(saving, Chunks)]
    /\ buf' = 0 /\ spc' = "flushed"
    /\ UNCHANGED <<fh, mem, saving, alive>>

Fsync == alive /\ spc = "flushed" /\ spc' = "synced" /\ UNCHANGED <<disk, buf, fh, mem, saving, alive>>

Close ==
    /\ alive /\ spc \in (IF Protocol = "atomic" THEN {"synced"} ELSE {"flushed", "synced"})
    /\ fh' = "none" /\ spc' = IF Protocol = "atomic" THEN "closed" ELSE "idle"
    /\ UNCHANGED <<disk, buf, mem, saving, alive>>

\* os.replace(tmp, final): atomic
Rename ==
    /\ alive /\ Protocol = "atomic" /\ spc = "closed"
    /\ disk' = [disk EXCEPT !["final"] = disk["tmp"], !["tmp"] = Absent]
    /\ spc' = "idle"
    /\ UNCHANGED <<buf, fh, mem, saving, alive>>

\* process death at any instant: user-space buffer lost, OS-level content kept
Crash ==
    /\ alive
    /\ alive' = FALSE /\ buf' = 0 /\ fh' = "none" /\ spc' = "idle"
    /\ UNCHANGED <<disk, mem, saving>>

\* a new process starts (possibly resuming); leftovers of the temporary name are simply overwritten later
Restart ==
    /\ ~alive
    /\ alive' = TRUE
    /\ mem' = IF Complete(disk["final"]) THEN disk["final"].snap ELSE 1
    /\ UNCHANGED <<disk, buf, fh, spc, saving>>

Next == Iterate \/ Open \/ Write \/ AutoFlush \/ Flush \/ Fsync \/ Close \/ Rename \/ Crash \/ Restart

Spec == Init /\ [][Next]_vars

-----------------------------------------------------------------------------
NeverTruncated == ~Truncated(disk["final"])
KeepsComplete  == [][Complete(disk["final"]) => Complete(disk["final"]')]_vars
\* a complete final file is exactly one snapshot that was being saved (never a mixture): snap ids are per file
OldOrNew       == [][Complete(disk["final"]) => disk["final"]'.snap \in {disk["final"].snap, saving}]_vars
\* the final name only ever changes by a rename of a synced temporary file
OnlyByRename   == [][disk["final"]' # disk["final"] => (Protocol = "atomic" /\ spc = "closed")]_vars

\* reachability witness (must be violated): a complete checkpoint of a later snapshot is eventually on disk
NeverSecondCheckpoint == ~(Complete(disk["final"]) /\ disk["final"].snap >= 2)
=============================================================================
