----------------------------- MODULE StateHeap -----------------------------
(***************************************************************************)
(* tempest.state_manager.StateManager as an object heap (property C17).     *)
(*                                                                          *)
(* ndarrays are heap CELLS: an identity (1..MaxC) and a content (a sequence *)
(* of small integers: <<t>> = a batch of 2+t rows filled with t (the tag is  *)
(* also the SHAPE class: batches with different tags cannot be stacked),     *)
(* <<t1,t2>> = the stacked/flattened image of two batches, <<-10*t>> = a     *)
(* batch of shape class t overwritten by the caller (the shape survives),    *)
(* <<-1>> = free cell, <<-2>> = the content reported for None, <<-3>> = the  *)
(* stacked image of a RAGGED history: undefined).  Python                    *)
(* lists that hold history are LIST cells (1..MaxL) whose content is a      *)
(* sequence of array cells (array keys) or of scalar values (key "beta").   *)
(*                                                                          *)
(*   Internal  = cells reachable from _current, _history, _results_dict     *)
(*   ext       = array cells the caller holds (returned by an accessor or   *)
(*               passed in by the caller); lext = list objects the caller   *)
(*               holds; rheld = the caller holds the cached results dict    *)
(*   optin     = cells the caller passed with copy=False (documented        *)
(*               opt-in: the caller's array IS the stored one)              *)
(*                                                                          *)
(* One action per public method, sharing behaviour spelled out, in two      *)
(* variants selected by the constant Impl:                                  *)
(*   Impl = FALSE  intended semantics (what the docstrings and C17 state):  *)
(*                 every accessor returns fresh cells, import copies.       *)
(*   Impl = TRUE   the pinned code: shallow to_dict, compute_results returns*)
(*                 its cache by reference, update_from_dict / from_dict     *)
(*                 store the caller's lists and arrays.                     *)
(* Getters (get_current, get_history, get_last_history, compute_logw_and_   *)
(* logz) return fresh cells in both variants (value.copy(), np.array(list), *)
(* np.concatenate): a fresh cell that nothing internal references is inert  *)
(* (scribbling it cannot be observed) and is pruned at once, so these       *)
(* actions leave the heap unchanged.  The same pruning (Norm) frees every   *)
(* cell that is neither internal nor part of the export dict the caller     *)
(* still holds, and cells are allocated smallest-free-first; this is a      *)
(* reduction, not an abstraction: an unreachable non-internal cell can only *)
(* come back by being passed in, which is the same as passing a new array.  *)
(*                                                                          *)
(* Properties: NoAlias, CacheCoherent (invariants), Stable, AppendOnly,     *)
(* OnePerCommit (action properties).  TLC: all hold for Impl = FALSE; for   *)
(* Impl = TRUE the shortest counterexamples are                             *)
(*   NoAlias       compute_results()                                        *)
(*   Stable        [one batch committed] compute_results(); scribble res[x] *)
(*   AppendOnly    [one batch committed] to_dict(); scribble d[_history][x][0]*)
(* Strict commits: commit_current_to_history(strict=True) is modelled in both *)
(* outcomes - CommitStrict (beta and logl set: an ordinary commit) and        *)
(* CommitStrictRejected (one of them None: ValueError, NOTHING changes);      *)
(* UnsetCurrent is set_current(k, None).  AlignedHistory states the alignment *)
(* rule of the pinned code, RejectedAppendsNothing the rejected outcome; the  *)
(* seeded variant SeededStrict = TRUE (append what is present, then raise) is *)
(* refuted by both after  set_current(x); commit(strict) -> ValueError.       *)
(* Binding (checks/c17.py): with Record = TRUE the variable `path' holds, for *)
(* every step, the operation label, View and the predicted sharing; every    *)
(* enumerated / simulated path is executed on a real StateManager.           *)
(***************************************************************************)
EXTENDS Integers, Sequences, FiniteSets, TLC

CONSTANTS Impl,        \* FALSE: intended semantics; TRUE: code-shaped semantics
          SeededStrict,\* TRUE: a rejected strict commit appends what is present before raising (seeded variant;
                       \* the pinned code validates first and appends nothing) - must be refuted by TLC
          MaxC, MaxL,  \* heap sizes (array cells, list cells)
          MaxCommits,  \* bound on committed batches per key
          Tags,        \* content tags of caller-made arrays (subset of 1..9)
          MaxOps,      \* bound on the number of operations of a behaviour
          Record,      \* TRUE: keep the operation sequence in `path' (one state per behaviour)
          Populated,   \* TRUE: a second initial state with one committed batch
          SeededRagged,\* TRUE: get_history(k) of a ragged history returns a container (object array) whose
                       \* members ARE the stored batches (seeded variant) - must be refuted by TLC
          Labels,      \* TRUE: `last' carries the full operation label (replay); FALSE: only its class
          Getters      \* FALSE: leave out the pure getters (heap no-ops; the harness calls all of them
                       \* after every step anyway) - used to enumerate longer operation sequences

VARIABLES s,      \* the heap + StateManager + what the caller holds (record, see Init)
          last,   \* the operation just performed (label for the replay)
          path    \* history variable (only when Record)

vars == <<s, last, path>>

AK   == {"x", "logl"}          \* array-valued keys
Keys == AK \cup {"beta"}       \* + one scalar key
RK   == Keys \cup {"logw"}     \* keys of the results dictionary

FREE == << -1 >>
RAGGED == << -3 >>
\* the caller overwrites an array: every element is replaced, the shape stays
Scr(ct) == [i \in DOMAIN ct |-> IF ct[i] > 0 THEN -10 * ct[i] ELSE ct[i]]
ShapeOf(ct) == IF ct = <<>> THEN 0 ELSE IF ct[1] > 0 THEN ct[1] ELSE (-ct[1]) \div 10
NONE == << -2 >>

KIdx(k) == CASE k = "x" -> 1 [] k = "logl" -> 2 [] k = "beta" -> 3 [] k = "logw" -> 4

Range(f) == {f[i] : i \in DOMAIN f}

RECURSIVE Cat(_)
Cat(ss) == IF ss = <<>> THEN <<>> ELSE Head(ss) \o Cat(Tail(ss))

IsPrefix(a, b) == Len(a) <= Len(b) /\ \A i \in 1..Len(a) : a[i] = b[i]

-----------------------------------------------------------------------------
(* Reachability *)

H(S, k) == S.lst[S.hl[k]]                       \* the history list of key k

CurCells(S)   == {S.cur[k] : k \in AK} \ {0}
HistCells(S)  == UNION {Range(H(S, k)) : k \in AK}
CacheCells(S) == IF S.cache.on THEN {S.cache.c[k] : k \in RK} \ {0} ELSE {}
Internal(S)   == CurCells(S) \cup HistCells(S) \cup CacheCells(S)
IntLists(S)   == {S.hl[k] : k \in Keys}

DCells(S) == IF S.d.on
             THEN ({S.d.cur[k] : k \in AK} \ {0}) \cup UNION {Range(S.lst[S.d.hist[k]]) : k \in AK}
             ELSE {}
DLists(S) == IF S.d.on THEN {S.d.hist[k] : k \in Keys} ELSE {}

NoD     == [on |-> FALSE, cur |-> [k \in AK |-> 0], beta |-> 0, hist |-> [k \in Keys |-> 0]]
NoCache == [on |-> FALSE, c |-> [k \in RK |-> 0]]
NoDisk  == [on |-> FALSE, cur |-> [k \in AK |-> << -1 >>], beta |-> 0, hist |-> [k \in AK |-> <<>>], bhist |-> <<>>]

\* prune what the caller holds to what can still matter, free everything unreachable
Norm(S) ==
    LET live == Internal(S) \cup DCells(S)
        ll   == IntLists(S) \cup DLists(S)
    IN  [S EXCEPT !.arr   = [c \in 1..MaxC |-> IF c \in live THEN S.arr[c] ELSE FREE],
                  !.lst   = [l \in 1..MaxL |-> IF l \in ll THEN S.lst[l] ELSE FREE],
                  !.ext   = S.ext \cap live,
                  !.optin = S.optin \cap S.ext \cap live,
                  !.lext  = S.lext \cap ll,
                  !.rheld = S.rheld /\ S.cache.on]

FreeC(S) == {c \in 1..MaxC : S.arr[c] = FREE}
FreeL(S) == {l \in 1..MaxL : S.lst[l] = FREE}
Pick(F, n) == CHOOSE c \in F : Cardinality({e \in F : e < c}) = n - 1
A(S, n)  == Pick(FreeC(S), n)     \* n-th free array cell (smallest first)

\* Allocation of a whole structure at once.  Slot p of the layout: p = 1, 2 -> cur["x"], cur["logl"];
\* p = 2 + (j-1)*MaxCommits + i -> batch i of the history of the j-th array key.  Slot p is backed by the
\* p-th free cell.  curc[k] / histc[k][i] are the CONTENTS to store (FREE = nothing to store).
AKs == <<"x", "logl">>
NSlots == 2 + 2 * MaxCommits
Place(S, curc, histc) ==
    LET F   == FreeC(S)
        rk  == [c \in 1..MaxC |-> Cardinality({e \in F : e < c}) + 1]
        fs  == [p \in 1..NSlots |-> Pick(F, p)]
        cnt == [p \in 1..NSlots |->
                  IF p <= 2 THEN curc[AKs[p]]
                  ELSE LET k == AKs[((p - 3) \div MaxCommits) + 1]
                           i == ((p - 3) % MaxCommits) + 1
                       IN  IF i <= Len(histc[k]) THEN histc[k][i] ELSE FREE]
    IN  [arr  |-> [c \in 1..MaxC |-> IF c \in F /\ rk[c] <= NSlots THEN cnt[rk[c]] ELSE S.arr[c]],
         cur  |-> [k \in AK |-> IF curc[k] = FREE THEN 0 ELSE fs[KIdx(k)]],
         hist |-> [k \in AK |-> [i \in 1..Len(histc[k]) |-> fs[2 + (KIdx(k) - 1) * MaxCommits + i]]]]

ContOrFree(S, c) == IF c = 0 THEN FREE ELSE S.arr[c]
Conts(S, L) == [i \in 1..Len(L) |-> S.arr[L[i]]]

Cont(S, c) == IF c = 0 THEN NONE ELSE S.arr[c]

\* the stacked / flattened image of a history (np.array(list), np.concatenate(list))
Stack(S, k) == IF k = "beta" THEN H(S, "beta")
               ELSE LET L == H(S, IF k = "logw" THEN "logl" ELSE k)
                    IN  Cat([i \in 1..Len(L) |-> S.arr[L[i]]])

Consistent(S) == Len(H(S, "x")) = Len(H(S, "beta")) /\ Len(H(S, "logl")) = Len(H(S, "beta"))

\* A history whose batches have different shapes (a driver committing batches of varying size, a checkpoint
\* resumed with another n_particles) is RAGGED.  Its stacked image - get_history(k) without index/flat,
\* compute_results(), Sampler.results() - is not defined: the pinned code raises ValueError from numpy.  The
\* specification leaves the value open (View reports RAGGED) but not the sharing: an accessor that does
\* return something - an ndarray, or a CONTAINER of arrays such as a list, a dict or an object-dtype ndarray -
\* must return fresh cells all the way down (NoAlias looks inside containers).  flat / index / last / to_dict
\* are defined for ragged histories as for regular ones.
Ragged(S, k) == \E i, j \in 1..Len(H(S, k)) : ShapeOf(S.arr[H(S, k)[i]]) # ShapeOf(S.arr[H(S, k)[j]])
AnyRagged(S) == \E k \in AK : Ragged(S, k)

\* what the accessors return, by content
View(S) ==
    [cur   |-> [k \in AK |-> Cont(S, S.cur[k])],
     beta  |-> S.beta,
     hist  |-> [k \in AK |-> [i \in 1..Len(H(S, k)) |-> S.arr[H(S, k)[i]]]],
     bhist |-> H(S, "beta"),
     res   |-> IF S.cache.on THEN [k \in RK |-> Cont(S, S.cache.c[k])]
               ELSE IF ~Consistent(S) THEN [k \in RK |-> NONE]
               ELSE IF AnyRagged(S) THEN [k \in RK |-> RAGGED]
               ELSE [k \in RK |-> Stack(S, k)]]

-----------------------------------------------------------------------------
(* The methods as heap transformers (before pruning) *)

Inval(S) == [S EXCEPT !.cache = NoCache]          \* _invalidate_cache()

\* set_current(k, <new array filled with t>, copy): copy=True stores a fresh cell (the caller's
\* own array is not internal, hence inert and not allocated); copy=False stores the caller's cell.
SetNew(S, k, t, copy) ==
    LET n == A(S, 1)
    IN  Inval([S EXCEPT !.arr[n] = <<t>>, !.cur[k] = n,
                        !.ext   = IF copy THEN @ ELSE @ \cup {n},
                        !.optin = IF copy THEN @ ELSE @ \cup {n}])

\* set_current(k, <an array the caller already holds>, copy)
SetHeld(S, k, c, copy) ==
    IF copy THEN LET n == A(S, 1) IN Inval([S EXCEPT !.arr[n] = S.arr[c], !.cur[k] = n])
    ELSE Inval([S EXCEPT !.cur[k] = c, !.optin = @ \cup {c}])

SetBeta(S, b) == Inval([S EXCEPT !.beta = b])

\* update_current({"x": new, "logl": new, "beta": b}, copy)
UpdNew(S, t, b, copy) ==
    LET n1 == A(S, 1)  n2 == A(S, 2)
    IN  Inval([S EXCEPT !.arr[n1] = <<t>>, !.arr[n2] = <<t>>, !.cur = [x |-> n1, logl |-> n2], !.beta = b,
                        !.ext   = IF copy THEN @ ELSE @ \cup {n1, n2},
                        !.optin = IF copy THEN @ ELSE @ \cup {n1, n2}])

\* the append phase of commit_current_to_history(): one fresh copy per non-None key, appended
AppendCur(S) ==
    LET P == Place(S, [k \in AK |-> ContOrFree(S, S.cur[k])], [k \in AK |-> <<>>])
    IN        [S EXCEPT
          !.arr = P.arr,
          !.lst = [l \in 1..MaxL |->
                     IF \E k \in AK : l = S.hl[k] /\ S.cur[k] # 0
                       THEN Append(S.lst[l], P.cur[CHOOSE k \in AK : l = S.hl[k] /\ S.cur[k] # 0])
                     ELSE IF l = S.hl["beta"] /\ S.beta # 0 THEN Append(S.lst[l], S.beta)
                     ELSE S.lst[l]]]

Recorded(S, k) == IF k = "beta" THEN S.beta # 0 ELSE S.cur[k] # 0

\* an accepted commit (lenient, or strict with the required keys present): append, count (ghost `rec':
\* the number of accepted commits at which the key was recorded), invalidate the cache
CommitOp(S) ==
    Inval([AppendCur(S) EXCEPT !.rec = [k \in Keys |-> IF Recorded(S, k) THEN S.rec[k] + 1 ELSE S.rec[k]]])

\* commit_current_to_history(strict=True) with beta or logl None: raises ValueError.  Intended (and the
\* pinned code: validation comes first): nothing at all happens.  Seeded variant: the keys that are present
\* have already been appended when the error is raised, and the cache is not invalidated on that path.
StrictOK(S) == S.beta # 0 /\ S.cur["logl"] # 0
RejectedOp(S) == IF SeededStrict THEN AppendCur(S) ELSE S

\* after an import / load the recorded counts are those of the imported history
Resync(S) == [S EXCEPT !.rec = [k \in Keys |-> Len(H(S, k))]]

\* set_current(k, None)
UnsetOp(S, k) == Inval(IF k = "beta" THEN [S EXCEPT !.beta = 0] ELSE [S EXCEPT !.cur[k] = 0])

\* compute_results(): build the cache if absent (one stacked array per history key + logw) ...
BuildCache(S) ==
    IF S.cache.on THEN S
    ELSE LET F  == FreeC(S)
             n  == [k \in RK |-> Pick(F, KIdx(k))]
         IN  [S EXCEPT !.arr = [c \in 1..MaxC |-> IF \E k \in RK : c = n[k]
                                                    THEN Stack(S, CHOOSE k \in RK : c = n[k]) ELSE S.arr[c]],
                       !.cache = [on |-> TRUE, c |-> n]]
\* ... intended: hand out a copy (fresh dict, fresh arrays: inert); code: hand out the cache itself
ResultsOp(S) ==
    LET S1 == BuildCache(S)
    IN  IF Impl THEN [S1 EXCEPT !.ext = @ \cup CacheCells(S1), !.rheld = TRUE] ELSE S1

DropD(S) == Norm([S EXCEPT !.d = NoD])     \* the caller lets go of the previous export dict

\* a new export-shaped dict around the given cells: three NEW list objects
NewDict(S, arr, curf, betav, histf) ==
    LET FL == FreeL(S)
        nl == [k \in Keys |-> Pick(FL, KIdx(k))]
        S1 == [S EXCEPT
                 !.arr = arr,
                 !.lst = [l \in 1..MaxL |-> IF \E k \in Keys : l = nl[k]
                                             THEN histf[CHOOSE k \in Keys : l = nl[k]] ELSE S.lst[l]],
                 !.d = [on |-> TRUE, cur |-> curf, beta |-> betav, hist |-> nl],
                 !.lext = @ \cup {nl[k] : k \in Keys}]
    IN  [S1 EXCEPT !.ext = @ \cup DCells(S1)]

\* to_dict(): intended = deep copy; code = new dicts and new lists around the SAME arrays
ToDictOp(S0) ==
    LET S == DropD(S0)
    IN  IF Impl
        THEN NewDict(S, S.arr, S.cur, S.beta, [k \in Keys |-> H(S, k)])
        ELSE LET P == Place(S, [k \in AK |-> ContOrFree(S, S.cur[k])], [k \in AK |-> Conts(S, H(S, k))])
             IN  NewDict(S, P.arr, P.cur, S.beta,
                         [k \in Keys |-> IF k = "beta" THEN H(S, "beta") ELSE P.hist[k]])

\* the caller builds an export-shaped dict from its own new arrays (n batches per key, tag t)
MakeDictOp(S0, t, n) ==
    LET S == DropD(S0)
        P == Place(S, [k \in AK |-> <<t>>], [k \in AK |-> [i \in 1..n |-> <<t>>]])
    IN  NewDict(S, P.arr, P.cur, 1, [k \in Keys |-> IF k = "beta" THEN [i \in 1..n |-> 1] ELSE P.hist[k]])

\* store copies of (curc, betav, histc) in the manager's own dicts and lists
StoreCopies(S, curc, betav, histc, bh) ==
    LET P == Place(S, curc, histc)
    IN  Inval([S EXCEPT !.arr = P.arr, !.cur = P.cur, !.beta = betav,
                        !.lst = [l \in 1..MaxL |->
                                   IF l = S.hl["beta"] THEN bh
                                   ELSE IF \E k \in AK : l = S.hl[k] THEN P.hist[CHOOSE k \in AK : l = S.hl[k]]
                                   ELSE S.lst[l]]])

\* update_from_dict(d): intended = store copies (the internal list objects stay the manager's own);
\* code = dict.update: the caller's arrays and the caller's LIST objects become internal
ImportOp(S) ==
    IF Impl
    THEN Inval([S EXCEPT !.cur = S.d.cur, !.beta = S.d.beta, !.hl = S.d.hist])
    ELSE StoreCopies(S, [k \in AK |-> ContOrFree(S, S.d.cur[k])], S.d.beta,
                     [k \in AK |-> Conts(S, S.lst[S.d.hist[k]])], S.lst[S.d.hist["beta"]])

\* StateManager.from_dict(d) replaces the instance by a new, empty one and performs the same import
\* (the old instance is garbage).  Intended: the new manager's own (empty) lists receive copies - the old
\* list identities are reused for them, they were never the caller's.  Code: dict.update overwrites every
\* entry with the caller's objects, so nothing of the blank instance survives.
FromDictOp(S) ==
    IF Impl THEN ImportOp(S)
    ELSE ImportOp(Inval([S EXCEPT !.cur = [k \in AK |-> 0], !.beta = 0,
                                  !.lst = [l \in 1..MaxL |-> IF l \in IntLists(S) THEN <<>> ELSE S.lst[l]]]))

\* save_state(): pickles the live dicts to disk - contents only, nothing is handed to the caller
SaveOp(S) ==
    [S EXCEPT !.disk = [on |-> TRUE, cur |-> [k \in AK |-> ContOrFree(S, S.cur[k])], beta |-> S.beta,
                        hist |-> [k \in AK |-> Conts(S, H(S, k))], bhist |-> H(S, "beta")]]

\* load_state(): unpickled objects are fresh and nobody else holds them
LoadOp(S) == StoreCopies(S, S.disk.cur, S.disk.beta, S.disk.hist, S.disk.bhist)

-----------------------------------------------------------------------------
(* State machine: one action per public method / caller move *)

ScribbleOps == {"scribble", "scribble_list", "scribble_resdict"}
ImportOps   == {"update_from_dict", "from_dict", "load_state"}
CommitOps   == {"commit", "commit_strict"}
RejectOps   == {"commit_strict_rejected", "rejected"}
Class(op) == IF op \in ScribbleOps THEN "scribble" ELSE IF op \in ImportOps THEN "load_state"
             ELSE IF op \in CommitOps THEN "commit" ELSE IF op \in RejectOps THEN "rejected" ELSE "other"

\* operation label: op, destination key k, tag t, index i, copy flag cp, and - for moves that name an
\* array the caller holds - WHERE the caller got it from: w \in {"cur" (passed with copy=False under key k2),
\* "dcur" / "dhist" (entry of the export dict: _current[k2] / _history[k2][i]), "res" (results dict entry k2)}
Lbl(op, k, t, i, cp) == [op |-> op, k |-> k, t |-> t, i |-> i, cp |-> cp, w |-> "", k2 |-> ""]

Where(S, c) ==
    IF c \in S.optin /\ \E k \in AK : S.cur[k] = c
      THEN [w |-> "cur", k2 |-> CHOOSE k \in AK : S.cur[k] = c, i |-> 0]
    ELSE IF S.d.on /\ \E k \in AK : S.d.cur[k] = c
      THEN [w |-> "dcur", k2 |-> CHOOSE k \in AK : S.d.cur[k] = c, i |-> 0]
    ELSE IF S.d.on /\ \E k \in AK : c \in Range(S.lst[S.d.hist[k]])
      THEN LET k == CHOOSE k \in AK : c \in Range(S.lst[S.d.hist[k]])
               L == S.lst[S.d.hist[k]]
           IN  [w |-> "dhist", k2 |-> k, i |-> CHOOSE i \in 1..Len(L) : L[i] = c]
    ELSE IF \E k \in RK : S.cache.on /\ S.cache.c[k] = c
      THEN [w |-> "res", k2 |-> CHOOSE k \in RK : S.cache.c[k] = c, i |-> 0]
    ELSE [w |-> "?", k2 |-> "", i |-> 0]

LblAt(op, k, cp, wh) == [op |-> op, k |-> k, t |-> 0, i |-> wh.i, cp |-> cp, w |-> wh.w, k2 |-> wh.k2]

Empty == [cur |-> [k \in AK |-> 0], beta |-> 0,
          hl |-> [k \in Keys |-> KIdx(k)],
          lst |-> [l \in 1..MaxL |-> IF l <= 3 THEN <<>> ELSE FREE],
          arr |-> [c \in 1..MaxC |-> FREE],
          cache |-> NoCache, d |-> NoD, disk |-> NoDisk, rec |-> [k \in Keys |-> 0],
          ext |-> {}, optin |-> {}, lext |-> {}, rheld |-> FALSE]

\* what the replay harness is told about the state reached: the view and the predicted sharing
\* (the only sharing the intended semantics allows: opt-in arrays currently stored under a key)
Obs(l, S) == [l |-> l, v |-> View(S), sh |-> {k \in AK : S.cur[k] \in S.optin}]

\* two initial states: a new manager, and (Populated) one with a first batch committed
\* ( = update_current({x, logl, beta}, copy=True); commit_current_to_history() )
Init ==
    /\ \E pop \in (IF Populated THEN BOOLEAN ELSE {FALSE}) :
         /\ s = IF pop THEN Norm(CommitOp(UpdNew(Empty, 1, 1, TRUE))) ELSE Empty
         /\ last = Lbl(IF pop THEN "init_populated" ELSE "init", "", 0, 0, FALSE)
    /\ path = <<IF Record THEN Obs(last, s) ELSE 0>>

Step(S, l) ==
    /\ Len(path) <= MaxOps
    /\ s' = Norm(S)
    /\ last' = IF Labels THEN l ELSE [l EXCEPT !.op = Class(l.op), !.k = "", !.t = 0, !.i = 0, !.w = "", !.k2 = ""]
    /\ path' = Append(path, IF Record THEN Obs(l, s') ELSE 0)   \* ~Record: a depth counter only

\* pure getters: fresh cells in both variants, heap unchanged
GetCurrent     == Getters /\ \E k \in Keys \cup {"ALL"} : Step(s, Lbl("get_current", k, 0, 0, FALSE))
GetHistory     == Getters /\ \E k \in Keys : \E m \in {"stack", "flat"} :
                    /\ m = "flat" => (k \in AK /\ Len(H(s, k)) > 0)
                    /\ m = "stack" => (k \in AK => ~Ragged(s, k))
                    /\ Step(s, Lbl("get_history", k, 0, IF m = "flat" THEN -1 ELSE 0, FALSE))
\* get_history(k) of a ragged history: raises, or returns fresh cells (heap unchanged either way);
\* seeded variant: the members of the returned container are the committed batches themselves
\* (not gated by Getters: only enabled in ragged states, and part of the enumerated sequences)
GetHistoryRagged == \E k \in AK : Ragged(s, k) /\
                    Step(IF SeededRagged THEN [s EXCEPT !.ext = @ \cup Range(H(s, k))] ELSE s,
                         Lbl("get_history_ragged", k, 0, 0, FALSE))
GetHistoryIdx  == Getters /\ \E k \in Keys : \E i \in 1..Len(H(s, k)) : Step(s, Lbl("get_history", k, 0, i, FALSE))
GetLastHistory == Getters /\ \E k \in Keys : Step(s, Lbl("get_last_history", k, 0, 0, FALSE))
GetHistoryLength == Getters /\ Step(s, Lbl("get_history_length", "", 0, 0, FALSE))
ComputeLogw    == Getters /\ Consistent(s) /\ Step(s, Lbl("compute_logw_and_logz", "", 0, 0, FALSE))

SetCurrent     == \E k \in AK : \E t \in Tags : \E cp \in BOOLEAN :
                    Step(SetNew(s, k, t, cp), Lbl("set_current", k, t, 0, cp))
\* (arrays have key-specific shapes: the caller passes back an array it holds for the same key)
SetCurrentHeld == \E k \in AK : \E c \in s.ext : \E cp \in BOOLEAN :
                    /\ Where(s, c).k2 = k
                    /\ Step(SetHeld(s, k, c, cp), LblAt("set_current_held", k, cp, Where(s, c)))
SetCurrentBeta == \E b \in 1..2 : Step(SetBeta(s, b), Lbl("set_current", "beta", b, 0, TRUE))
\* update_current with a batch of ANOTHER size (shape class 2): the next commit makes the history ragged
UpdateCurrentResized == Step(UpdNew(s, 2, 1, TRUE), Lbl("update_current", "", 2, 0, TRUE))
UpdateCurrent  == \E t \in Tags : \E cp \in BOOLEAN :
                    Step(UpdNew(s, t, 1, cp), Lbl("update_current", "", t, 0, cp))
Commit         == /\ \A k \in Keys : Len(H(s, k)) < MaxCommits
                  /\ Step(CommitOp(s), Lbl("commit", "", 0, 0, FALSE))
\* strict commit, both outcomes
CommitStrict   == /\ \A k \in Keys : Len(H(s, k)) < MaxCommits
                  /\ StrictOK(s)
                  /\ Step(CommitOp(s), Lbl("commit_strict", "", 0, 0, FALSE))
CommitStrictRejected ==
                  /\ \A k \in Keys : Len(H(s, k)) < MaxCommits
                  /\ ~StrictOK(s)
                  /\ Step(RejectedOp(s), Lbl("commit_strict_rejected", "", 0, 0, FALSE))
\* set_current(k, None) for the keys strict mode requires
UnsetCurrent   == \E k \in {"logl", "beta"} : Recorded(s, k) /\ Step(UnsetOp(s, k), Lbl("unset_current", k, 0, 0, FALSE))
ComputeResults == Consistent(s) /\ ~AnyRagged(s) /\ Step(ResultsOp(s), Lbl("compute_results", "", 0, 0, FALSE))
ToDict         == Step(ToDictOp(s), Lbl("to_dict", "", 0, 0, FALSE))
MakeDict       == \E t \in Tags : \E n \in 0..1 : Step(MakeDictOp(s, t, n), Lbl("make_dict", "", t, n, FALSE))
UpdateFromDict == s.d.on /\ Step(Resync(ImportOp(s)), Lbl("update_from_dict", "", 0, 0, FALSE))
FromDict       == s.d.on /\ Step(Resync(FromDictOp(s)), Lbl("from_dict", "", 0, 0, FALSE))
SaveState      == Step(SaveOp(s), Lbl("save_state", "", 0, 0, FALSE))
LoadState      == s.disk.on /\ Step(Resync(LoadOp(s)), Lbl("load_state", "", 0, 0, FALSE))

\* the caller overwrites an array it holds (cp = the array was passed with copy=False)
\* (an empty array - the stacked image of an empty history - has nothing to overwrite)
CallerScribble == \E c \in s.ext : Scr(s.arr[c]) # s.arr[c] /\
                    Step([s EXCEPT !.arr[c] = Scr(s.arr[c])], LblAt("scribble", "", c \in s.optin, Where(s, c)))
\* the caller empties a list object it holds
CallerScribbleList == \E l \in s.lext : s.lst[l] # <<>> /\
                    Step([s EXCEPT !.lst[l] = <<>>],
                         Lbl("scribble_list", CHOOSE k \in Keys : s.d.on /\ s.d.hist[k] = l, 0, 0, FALSE))
\* the caller assigns into the results dict it holds (only possible if that dict IS the cache)
CallerScribbleResDict == \E k \in RK : s.rheld /\ s.cache.on /\ s.cache.c[k] # 0 /\
                    Step([s EXCEPT !.cache.c[k] = 0], Lbl("scribble_resdict", k, 0, 0, FALSE))

Next == \/ GetCurrent \/ GetHistory \/ GetHistoryRagged \/ UpdateCurrentResized \/ GetHistoryIdx \/ GetLastHistory \/ GetHistoryLength \/ ComputeLogw
        \/ SetCurrent \/ SetCurrentHeld \/ SetCurrentBeta \/ UpdateCurrent \/ Commit
        \/ CommitStrict \/ CommitStrictRejected \/ UnsetCurrent
        \/ ComputeResults \/ ToDict \/ MakeDict \/ UpdateFromDict \/ FromDict \/ SaveState \/ LoadState
        \/ CallerScribble \/ CallerScribbleList \/ CallerScribbleResDict

Spec == Init /\ [][Next]_vars

-----------------------------------------------------------------------------
(* Properties (C17) *)

TypeOK ==
    /\ s.ext \subseteq 1..MaxC /\ s.optin \subseteq s.ext /\ s.lext \subseteq 1..MaxL
    /\ \A c \in Internal(s) \cup DCells(s) : s.arr[c] # FREE
    /\ \A l \in IntLists(s) \cup DLists(s) : s.lst[l] # FREE
    /\ \A k \in Keys : Len(H(s, k)) <= MaxCommits
    /\ Cardinality(IntLists(s)) = 3

\* no array (list, dict) the caller holds is reachable from internal state, except by opt-in
NoAlias ==
    /\ (s.ext \ s.optin) \cap Internal(s) = {}
    /\ s.lext \cap IntLists(s) = {}
    /\ ~s.rheld

\* the results cache, when present, is the image of the history
CacheCoherent == s.cache.on => \A k \in RK : Cont(s, s.cache.c[k]) = Stack(s, k)

\* a caller overwriting what it holds (opt-in arrays excepted) never changes what accessors return
Stable == [][(last'.op \in ScribbleOps /\ ~last'.cp) => View(s') = View(s)]_vars

\* history only grows, earlier batches keep identity and content (import / load excepted)
AppendOnly ==
    [][(last'.op \notin ImportOps) =>
         \A k \in Keys :
            /\ s'.hl[k] = s.hl[k]
            /\ IsPrefix(H(s, k), H(s', k))
            /\ k \in AK => \A i \in 1..Len(H(s, k)) : s'.arr[H(s, k)[i]] = s.arr[H(s, k)[i]]]_vars

\* a commit appends exactly one fresh cell per recorded non-None key, with the current content
OnePerCommit ==
    [][(last'.op \in CommitOps) =>
         /\ \A k \in AK :
              IF s.cur[k] = 0 THEN H(s', k) = H(s, k)
              ELSE /\ Len(H(s', k)) = Len(H(s, k)) + 1
                   /\ LET n == H(s', k)[Len(H(s', k))]
                      IN  n \notin Internal(s) \cup s.ext /\ s'.arr[n] = s.arr[s.cur[k]]
         /\ H(s', "beta") = IF s.beta = 0 THEN H(s, "beta") ELSE Append(H(s, "beta"), s.beta)
        ]_vars

\* Alignment rule of the pinned code: a lenient commit skips None values, so the per-key histories need not
\* have equal lengths; what holds is that the history of every key has exactly one batch per ACCEPTED commit
\* at which that key was not None (counted since the last import / load, which installs the imported lengths).
\* Keys recorded at the same accepted commits therefore stay aligned; a rejected commit counts for no key.
AlignedHistory == \A k \in Keys : Len(H(s, k)) = s.rec[k]

\* a rejected strict commit appends nothing, keeps the cache as it was and changes nothing an accessor returns
RejectedAppendsNothing ==
    [][(last'.op \in RejectOps) =>
         /\ \A k \in Keys : s'.hl[k] = s.hl[k] /\ H(s', k) = H(s, k)
         /\ s'.cache = s.cache
         /\ View(s') = View(s)]_vars

=============================================================================
