----------------------------- MODULE Reweight -----------------------------
(***************************************************************************)
(* Temperature search of tempest.steps.reweight.Reweighter.run as control   *)
(* flow over an ARBITRARY metric oracle (property C05, component layer).    *)
(*                                                                          *)
(* A temperature is g / 2^F, g \in 0..2^F (dyadic, so the code's            *)
(* (a + b) * 0.5 is exact in binary floating point and stays on the grid as *)
(* long as F is deep enough - invariant OnGrid).  beta_prev ranges over the *)
(* coarse set BPs, BETA_TOLERANCE is Tol grid units.                        *)
(*                                                                          *)
(* The oracle is chosen by TLC, lazily: the first time the code evaluates   *)
(* the ESS (resp. the volume-variation metric) at a temperature, TLC picks  *)
(* any class for it; later evaluations at the same temperature read the     *)
(* memo (the real function is deterministic).  Quantifying over all memos   *)
(* is quantifying over all total oracles [0..2^F -> classes] - every total  *)
(* oracle restricts to a memo, every memo extends to a total oracle - but   *)
(* every distinct behaviour of the search is generated exactly once.  No    *)
(* monotonicity of ESS in beta is assumed.                                  *)
(*                                                                          *)
(* Classes are positions relative to the target T of the metric:            *)
(*   below     value < T, outside the ESS_TOLERANCE band                    *)
(*   below_in  T*(1-ESS_TOLERANCE) < value < T                              *)
(*   at        value = T exactly                                            *)
(*   above_in  T < value < T*(1+ESS_TOLERANCE)                              *)
(*   above     value > T, outside the band                                  *)
(*   nan, pinf, ninf   non-finite values                                    *)
(*                                                                          *)
(* One action per evaluation of _compute_metric_and_weights (plus the       *)
(* evidence call and the write-back); comparison operators and loop tests   *)
(* are the code's.  `Mut` selects seeded WRONG variants, used only to show  *)
(* that the property invariants are not vacuous (TLC must refute them).     *)
(***************************************************************************)
EXTENDS Integers, Sequences, FiniteSets, TLC

CONSTANTS F,      \* grid depth: One = 2^F
          BPs,    \* set of beta_prev values, grid units
          Tol,    \* BETA_TOLERANCE, grid units
          K,      \* 2^F <= 2^K * Tol  (each loop makes at most K + 2 evaluations)
          Modes,  \* subset of {"ess", "vv"}
          EssC,   \* classes the ESS oracle may answer
          VvC,    \* classes the volume-variation oracle may answer
          Mut     \* "none" | "ul_swap" | "ess_gt" | "bis_tag"

VARIABLES mode, bp, pc,
          lo, hi, upper,        \* _find_beta_upper_limit: bracket, returned limit
          bmin, bmax,           \* _find_beta_bisection: bracket
          essM, vvM,            \* memos: sequences of <<g, class>> in order of first evaluation
          qlog,                 \* every temperature passed to _compute_metric_and_weights, in order
          nUL, nBis,            \* evaluations made by each loop
          res,                  \* chosen temperature
          wtag, etag, ztag,     \* temperature at which the weights / ess / logz in hand were computed
          wbeta, wess, wlogz,   \* what _finalize_iteration wrote to the state (temperature tags)
          rwt                   \* temperature tag of the returned normalised weights

vars == <<mode, bp, pc, lo, hi, upper, bmin, bmax, essM, vvM, qlog, nUL, nBis,
          res, wtag, etag, ztag, wbeta, wess, wlogz, rwt>>

One == 2 ^ F

ASSUME GridAssumptions ==
    /\ F \in Nat /\ K \in Nat /\ Tol \in Nat \ {0}
    /\ One <= (2 ^ K) * Tol
    /\ BPs \subseteq 0..One
    /\ Modes \subseteq {"ess", "vv"}
    /\ Mut \in {"none", "ul_swap", "ess_gt", "bis_tag"}

AllClasses == {"below", "below_in", "at", "above_in", "above", "nan", "pinf", "ninf"}

-----------------------------------------------------------------------------
(* IEEE comparisons of a value of class c with its target *)
LtT(c) == c \in {"below", "below_in", "ninf"}               \* value <  T
LeT(c) == c \in {"below", "below_in", "at", "ninf"}         \* value <= T
GeT(c) == c \in {"at", "above_in", "above", "pinf"}         \* value >= T
GtT(c) == c \in {"above_in", "above", "pinf"}               \* value >  T   (all four FALSE for nan)
Finite(c) == c \notin {"nan", "pinf", "ninf"}
InBand(c) == c \in {"below_in", "at", "above_in"}           \* |value - T| < ESS_TOLERANCE * T
Handled(c) == IF Finite(c) THEN c ELSE "above"              \* non-finite -> 1e10 (far above any target)

(* memo *)
Known(M, g) == \E i \in DOMAIN M : M[i][1] = g
Val(M, g)   == LET i == CHOOSE j \in DOMAIN M : M[j][1] = g IN M[i][2]
Ask(M, g, c) == Known(M, g) => c = Val(M, g)
Put(M, g, c) == IF Known(M, g) THEN M ELSE Append(M, <<g, c>>)

Mid(a, b) == (a + b) \div 2

-----------------------------------------------------------------------------
Init ==
    /\ mode \in Modes
    /\ bp \in BPs
    /\ pc = "ul_cur"
    /\ lo = bp /\ hi = One          \* beta_low = beta_current ; beta_high = 1.0
    /\ upper = -1
    /\ bmin = -1 /\ bmax = -1
    /\ essM = <<>> /\ vvM = <<>> /\ qlog = <<>>
    /\ nUL = 0 /\ nBis = 0
    /\ res = -1 /\ wtag = -1 /\ etag = -1 /\ ztag = -1
    /\ wbeta = -1 /\ wess = -1 /\ wlogz = -1 /\ rwt = -1

\* where run() continues after _find_beta_upper_limit returned u
AfterUL(u) == IF mode = "ess" THEN "e_prev" ELSE IF u = bp THEN "v_same" ELSE "v_prev"

(* ---- _find_beta_upper_limit ------------------------------------------- *)
\* ess_at_current < target -> return beta_current
UL_Current ==
    /\ pc = "ul_cur"
    /\ \E c \in EssC :
         /\ Ask(essM, bp, c) /\ essM' = Put(essM, bp, c)
         /\ IF LtT(c) THEN upper' = bp /\ pc' = AfterUL(bp)
                      ELSE upper' = upper /\ pc' = "ul_one"
    /\ qlog' = Append(qlog, bp) /\ nUL' = nUL + 1
    /\ UNCHANGED <<mode, bp, lo, hi, bmin, bmax, vvM, nBis, res, wtag, etag, ztag, wbeta, wess, wlogz, rwt>>

\* ess_at_one >= target -> return 1.0
UL_One ==
    /\ pc = "ul_one"
    /\ \E c \in EssC :
         /\ Ask(essM, One, c) /\ essM' = Put(essM, One, c)
         /\ IF GeT(c) THEN upper' = One /\ pc' = AfterUL(One)
                      ELSE upper' = upper /\ pc' = "ul_loop"
    /\ qlog' = Append(qlog, One) /\ nUL' = nUL + 1
    /\ UNCHANGED <<mode, bp, lo, hi, bmin, bmax, vvM, nBis, res, wtag, etag, ztag, wbeta, wess, wlogz, rwt>>

\* while beta_high - beta_low > BETA_TOLERANCE: ess_mid >= target -> low = mid else high = mid
UL_Step ==
    /\ pc = "ul_loop" /\ hi - lo > Tol
    /\ LET m == Mid(hi, lo) IN
         /\ \E c \in EssC :
              /\ Ask(essM, m, c) /\ essM' = Put(essM, m, c)
              /\ IF (IF Mut = "ul_swap" THEN ~GeT(c) ELSE GeT(c))
                    THEN lo' = m /\ hi' = hi
                    ELSE hi' = m /\ lo' = lo
         /\ qlog' = Append(qlog, m)
    /\ nUL' = nUL + 1
    /\ UNCHANGED <<mode, bp, pc, upper, bmin, bmax, vvM, nBis, res, wtag, etag, ztag, wbeta, wess, wlogz, rwt>>

\* loop test fails -> return beta_low
UL_Exit ==
    /\ pc = "ul_loop" /\ ~(hi - lo > Tol)
    /\ upper' = lo /\ pc' = AfterUL(lo)
    /\ UNCHANGED <<mode, bp, lo, hi, bmin, bmax, essM, vvM, qlog, nUL, nBis, res, wtag, etag, ztag, wbeta, wess, wlogz, rwt>>

(* ---- ESS mode: boundary cases ----------------------------------------- *)
\* _, (weights_prev, ess_prev) = ess_fn(beta_prev)
E_Prev ==
    /\ pc = "e_prev"
    /\ \E c \in EssC : Ask(essM, bp, c) /\ essM' = Put(essM, bp, c)
    /\ qlog' = Append(qlog, bp)
    /\ pc' = "e_upper"
    /\ UNCHANGED <<mode, bp, lo, hi, upper, bmin, bmax, vvM, nUL, nBis, res, wtag, etag, ztag, wbeta, wess, wlogz, rwt>>

\* _, (weights_upper, ess_upper) = ess_fn(beta_upper) ; then the three-way decision
E_Upper ==
    /\ pc = "e_upper"
    /\ \E c \in EssC :
         /\ Ask(essM, upper, c) /\ essM' = Put(essM, upper, c)
         /\ LET p == Val(essM, bp) IN
            IF LeT(p)                                     \* ess_prev <= target : stay
              THEN /\ res' = bp /\ wtag' = bp /\ etag' = bp /\ pc' = "logz"
                   /\ UNCHANGED <<bmin, bmax>>
            ELSE IF (IF Mut = "ess_gt" THEN GtT(c) ELSE GeT(c))   \* ess_upper >= target : use the limit
              THEN /\ res' = upper /\ wtag' = upper /\ etag' = upper /\ pc' = "logz"
                   /\ UNCHANGED <<bmin, bmax>>
            ELSE   /\ bmin' = bp /\ bmax' = upper /\ pc' = "bis"   \* _find_beta_bisection(beta_prev, beta_upper, ...)
                   /\ UNCHANGED <<res, wtag, etag>>
    /\ qlog' = Append(qlog, upper)
    /\ UNCHANGED <<mode, bp, lo, hi, upper, vvM, nUL, nBis, ztag, wbeta, wess, wlogz, rwt>>

(* ---- volume-variation mode: boundary cases ------------------------------ *)
\* beta_upper == beta_prev : stay, one evaluation at beta_prev
V_Same ==
    /\ pc = "v_same"
    /\ qlog' = Append(qlog, bp)
    /\ res' = bp /\ wtag' = bp /\ etag' = bp /\ pc' = "logz"
    /\ UNCHANGED <<mode, bp, lo, hi, upper, bmin, bmax, essM, vvM, nUL, nBis, ztag, wbeta, wess, wlogz, rwt>>

\* _, ess_at_prev, vol_var_prev = _compute_metric_and_weights(beta_prev)
V_Prev ==
    /\ pc = "v_prev"
    /\ \E c \in VvC : Ask(vvM, bp, c) /\ vvM' = Put(vvM, bp, c)
    /\ qlog' = Append(qlog, bp)
    /\ pc' = "v_upper"
    /\ UNCHANGED <<mode, bp, lo, hi, upper, bmin, bmax, essM, nUL, nBis, res, wtag, etag, ztag, wbeta, wess, wlogz, rwt>>

\* _, ess_at_upper, vol_var_upper = ...(beta_upper) ; then the three-way decision
V_Upper ==
    /\ pc = "v_upper"
    /\ \E c \in VvC :
         /\ Ask(vvM, upper, c) /\ vvM' = Put(vvM, upper, c)
         /\ LET p == Val(vvM, bp) IN
            IF LeT(c)                          \* target >= vol_var_upper : go to the ESS limit
              THEN res' = upper /\ pc' = "v_rec" /\ UNCHANGED <<bmin, bmax>>
            ELSE IF GeT(p)                     \* target <= vol_var_prev : stay
              THEN res' = bp /\ pc' = "v_rec" /\ UNCHANGED <<bmin, bmax>>
            ELSE bmin' = bp /\ bmax' = upper /\ pc' = "bis" /\ UNCHANGED res
    /\ qlog' = Append(qlog, upper)
    /\ UNCHANGED <<mode, bp, lo, hi, upper, essM, nUL, nBis, wtag, etag, ztag, wbeta, wess, wlogz, rwt>>

\* weights is None -> weights, ess_est, _ = _compute_metric_and_weights(beta)
V_Recompute ==
    /\ pc = "v_rec"
    /\ qlog' = Append(qlog, res)
    /\ wtag' = res /\ etag' = res /\ pc' = "logz"
    /\ UNCHANGED <<mode, bp, lo, hi, upper, bmin, bmax, essM, vvM, nUL, nBis, res, ztag, wbeta, wess, wlogz, rwt>>

(* ---- _find_beta_bisection (shared by both modes) ------------------------ *)
Bis_Step ==
    /\ pc = "bis"
    /\ LET m == Mid(bmax, bmin) IN
       /\ \E c \in (IF mode = "ess" THEN EssC ELSE VvC) :
            /\ IF mode = "ess"
                 THEN Ask(essM, m, c) /\ essM' = Put(essM, m, c) /\ vvM' = vvM
                 ELSE Ask(vvM, m, c) /\ vvM' = Put(vvM, m, c) /\ essM' = essM
            /\ LET h    == Handled(c)
                   conv == InBand(h) \/ (bmax - bmin < Tol) \/ m = One
                   dn   == IF mode = "ess" THEN LtT(h) ELSE ~LtT(h)   \* TRUE: beta_max = beta ; FALSE: beta_min = beta
               IN IF conv
                    THEN /\ res' = m /\ etag' = m /\ pc' = "logz"
                         /\ wtag' = (IF Mut = "bis_tag" THEN bmax ELSE m)
                         /\ UNCHANGED <<bmin, bmax>>
                    ELSE /\ IF dn THEN bmax' = m /\ bmin' = bmin ELSE bmin' = m /\ bmax' = bmax
                         /\ UNCHANGED <<res, etag, wtag, pc>>
       /\ qlog' = Append(qlog, m)
    /\ nBis' = nBis + 1
    /\ UNCHANGED <<mode, bp, lo, hi, upper, nUL, ztag, wbeta, wess, wlogz, rwt>>

(* ---- evidence at the chosen temperature, write-back ---------------------- *)
\* _, logz = self.state.compute_logw_and_logz(beta)
Logz ==
    /\ pc = "logz"
    /\ ztag' = res /\ pc' = "final"
    /\ UNCHANGED <<mode, bp, lo, hi, upper, bmin, bmax, essM, vvM, qlog, nUL, nBis, res, wtag, etag, wbeta, wess, wlogz, rwt>>

\* _finalize_iteration(beta, weights, ess_est, logz)
Finalize ==
    /\ pc = "final"
    /\ wbeta' = res /\ wess' = etag /\ wlogz' = ztag /\ rwt' = wtag
    /\ pc' = "done"
    /\ UNCHANGED <<mode, bp, lo, hi, upper, bmin, bmax, essM, vvM, qlog, nUL, nBis, res, wtag, etag, ztag>>

Done == pc = "done" /\ UNCHANGED vars

Step == \/ UL_Current \/ UL_One \/ UL_Step \/ UL_Exit
        \/ E_Prev \/ E_Upper
        \/ V_Same \/ V_Prev \/ V_Upper \/ V_Recompute
        \/ Bis_Step \/ Logz \/ Finalize

Next == Step \/ Done          \* with deadlock checking ON: every behaviour reaches "done"

Spec == Init /\ [][Next]_vars

-----------------------------------------------------------------------------
(* Properties *)

ULDone == pc \notin {"ul_cur", "ul_one", "ul_loop"}

TypeOK ==
    /\ mode \in Modes /\ bp \in BPs
    /\ pc \in {"ul_cur", "ul_one", "ul_loop", "e_prev", "e_upper", "v_same", "v_prev", "v_upper",
               "v_rec", "bis", "logz", "final", "done"}
    /\ lo \in 0..One /\ hi \in 0..One /\ lo <= hi
    /\ upper \in -1..One /\ res \in -1..One
    /\ \A i \in DOMAIN essM : essM[i][1] \in 0..One /\ essM[i][2] \in EssC
    /\ \A i \in DOMAIN vvM : vvM[i][1] \in 0..One /\ vvM[i][2] \in VvC
    /\ \A i \in DOMAIN qlog : qlog[i] \in 0..One

\* the dyadic grid is deep enough: every midpoint the code forms is a grid point
OnGrid ==
    /\ (pc = "ul_loop" /\ hi - lo > Tol) => (hi + lo) % 2 = 0
    /\ pc = "bis" => (bmax + bmin) % 2 = 0

\* C05: never decreases, never exceeds 1
Bounded == pc = "done" => (bp <= res /\ res <= One)

\* the returned ESS limit: in [beta_prev, 1], and if it lies beyond beta_prev the ESS there is >= target
UpperHasESS ==
    ULDone => /\ bp <= upper /\ upper <= One
              /\ upper > bp => (Known(essM, upper) /\ GeT(Val(essM, upper)))

\* (auxiliary, what "ESS-limited temperature" means) the limit is tight: either ESS is already below
\* target at beta_prev, or the limit is 1, or there is an evaluated temperature within the tolerance
\* above the limit whose ESS is not >= target
UpperTight ==
    (ULDone /\ upper < One) =>
        \/ upper = bp /\ LtT(Val(essM, bp))
        \/ hi - upper <= Tol /\ upper < hi /\ Known(essM, hi) /\ ~GeT(Val(essM, hi))

\* C05, ESS mode: once it advances, it advances to a temperature at which ESS >= target
\* (stated for ALL oracles, monotone or not)
AdvanceHasESS ==
    (pc = "done" /\ mode = "ess" /\ res > bp) => (Known(essM, res) /\ GeT(Val(essM, res)))

\* C05, volume-variation mode: not beyond the ESS-limited temperature
VVWithinLimit ==
    (pc = "done" /\ mode = "vv") => res <= upper

\* C05: recorded beta / ess / logz and the returned weights refer to the same temperature
SameTag ==
    pc = "done" => (wbeta = res /\ wess = res /\ wlogz = res /\ rwt = res)

\* both loops stop within K + 2 evaluations; one call makes at most 2(K+2)+3 evaluations
Terminates ==
    /\ nUL <= K + 2 /\ nBis <= K + 2
    /\ Len(qlog) <= 2 * (K + 2) + 3

\* a fact about the pinned control flow: in ESS mode the metric bisection is entered only in the
\* degenerate case ESS(beta_prev) = NaN with limit = beta_prev, where it returns beta_prev at once;
\* for every oracle without NaN it is dead code (the limit search already established ESS(limit) >= target)
EssBisectionDegenerate ==
    (mode = "ess" /\ pc = "bis") => (bmin = bmax /\ bmin = bp /\ Val(essM, bp) = "nan")

\* every evaluation in ESS mode after the limit search is a memo hit (the search re-evaluates, never explores)
EssModeNoNewPoints ==
    (mode = "ess" /\ pc \in {"logz", "final", "done"}) => Known(essM, res)

=============================================================================
