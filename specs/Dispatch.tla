------------------------------ MODULE Dispatch ------------------------------
(***************************************************************************)
(* Likelihood dispatch of SamplerCore._log_like: a batch of P points is     *)
(* evaluated either by one vectorised user call, by a sequential map, or by *)
(* pool.map over W workers that take and complete points in ANY order.      *)
(* pool.map's contract is that results come back in input order; the        *)
(* assembled log-likelihood / blob arrays must be position-wise F(x_i),     *)
(* G(x_i) for every schedule, and the number of user evaluations (ghost     *)
(* `evals`) must equal the increment of the call counter (P per batch).     *)
(***************************************************************************)
EXTENDS Integers, Sequences, FiniteSets, TLC

CONSTANTS P, W, Strategies

VARIABLES strategy, pc, todo, running, res, order, evals, out

vars == <<strategy, pc, todo, running, res, order, evals, out>>

F(i) == 10 + i      \* the user's log-likelihood at point i (injective)
NoneV == 0

Init ==
    /\ strategy \in Strategies
    /\ pc = "submit"
    /\ todo = {} /\ running = [w \in 1..W |-> 0]
    /\ res = [i \in 1..P |-> NoneV]
    /\ order = <<>> /\ evals = 0 /\ out = <<>>

Submit ==
    /\ pc = "submit"
    /\ CASE strategy = "vector" ->
              \* one user call on the whole batch: P evaluations, results positional
              /\ res' = [i \in 1..P |-> F(i)] /\ evals' = evals + P /\ order' = <<>> /\ todo' = {} /\ pc' = "assemble"
         [] strategy = "seq" ->
              /\ todo' = 1..P /\ pc' = "seq" /\ UNCHANGED <<res, evals, order>>
         [] strategy = "pool" ->
              /\ todo' = 1..P /\ pc' = "pool" /\ UNCHANGED <<res, evals, order>>
    /\ UNCHANGED <<strategy, running, out>>

\* sequential map: strictly in input order
SeqEval ==
    /\ pc = "seq" /\ todo # {}
    /\ LET i == CHOOSE j \in todo : \A k \in todo : j <= k IN
       /\ res' = [res EXCEPT ![i] = F(i)] /\ evals' = evals + 1 /\ order' = Append(order, i) /\ todo' = todo \ {i}
    /\ pc' = IF todo' = {} THEN "assemble" ELSE "seq"
    /\ UNCHANGED <<strategy, running, out>>

WorkerTake(w, i) ==
    /\ pc = "pool" /\ running[w] = 0 /\ i \in todo
    /\ running' = [running EXCEPT ![w] = i] /\ todo' = todo \ {i}
    /\ UNCHANGED <<strategy, pc, res, order, evals, out>>

WorkerDone(w) ==
    /\ pc = "pool" /\ running[w] # 0
    /\ LET i == running[w] IN
       /\ res' = [res EXCEPT ![i] = F(i)] /\ evals' = evals + 1 /\ order' = Append(order, i)
    /\ running' = [running EXCEPT ![w] = 0]
    /\ pc' = IF todo = {} /\ \A v \in 1..W : v = w \/ running[v] = 0 THEN "assemble" ELSE "pool"
    /\ UNCHANGED <<strategy, todo, out>>

Assemble ==
    /\ pc = "assemble"
    /\ out' = [i \in 1..P |-> res[i]]      \* map contract: results in INPUT order
    /\ pc' = "done"
    /\ UNCHANGED <<strategy, todo, running, res, order, evals>>

Next == Submit \/ SeqEval \/ (\E w \in 1..W : \E i \in 1..P : WorkerTake(w, i)) \/ (\E w \in 1..W : WorkerDone(w)) \/ Assemble

Spec == Init /\ [][Next]_vars

Positional == pc = "done" => \A i \in 1..P : out[i] = F(i)
CallsExact == pc = "done" => evals = P
EachOnce   == pc = "done" => (strategy # "vector" => (Len(order) = P /\ {order[k] : k \in DOMAIN order} = 1..P))
=============================================================================
