----------------------------- MODULE PriorPhase -----------------------------
(***************************************************************************)
(* Warm-up (beta = 0) evidence bookkeeping in exact rational arithmetic.    *)
(*                                                                          *)
(* Warm-up iteration t draws N prior points of which a_t have finite        *)
(* likelihood.  Reweight re-estimates Z(0) from the history by the balance  *)
(* heuristic at beta = 0, which for equal batch sizes is the harmonic mean  *)
(* of the recorded Z_s; Mutate then records Z_t for the new batch.          *)
(*                                                                          *)
(* Property Once (C11): every recorded Z_t lies in the convex hull of the   *)
(* per-batch supported fractions {a_s/N : s <= t} (any consistent estimator *)
(* - per batch, pooled, harmonic - is accepted; a PRODUCT of fractions is    *)
(* not), and equals 1 while no zero-likelihood draw has been seen.           *)
(*                                                                          *)
(* Variant "fixed":   Z_t = a_t/N if the batch had a zero-likelihood draw,   *)
(*                    else the re-estimate (what the code does after fix:)   *)
(* Variant "addcorr": Z_t = re-estimate * a_t/N (the pinned tree's defect)   *)
(* Variant "pooled":  Z_t = sum a_s / (t N)   (another admissible design)    *)
(***************************************************************************)
EXTENDS Integers, Sequences, TLC

CONSTANTS N, T, Variant

VARIABLES as,   \* finite counts per batch so far
          zs    \* recorded Z per batch, rationals <<num, den>>

vars == <<as, zs>>

RECURSIVE Gcd(_, _)
Gcd(a, b) == IF b = 0 THEN a ELSE Gcd(b, a % b)
Norm(q) == LET g == Gcd(q[1], q[2]) IN IF g = 0 THEN <<0, 1>> ELSE <<q[1] \div g, q[2] \div g>>
Mul(p, q) == Norm(<<p[1] * q[1], p[2] * q[2]>>)
Add(p, q) == Norm(<<p[1] * q[2] + q[1] * p[2], p[2] * q[2]>>)
Inv(p) == <<p[2], p[1]>>
Leq(p, q) == p[1] * q[2] <= q[1] * p[2]
Frac(a) == Norm(<<a, N>>)

\* harmonic mean of a non-empty sequence of positive rationals (equal batch sizes)
RECURSIVE SumInv(_, _)
SumInv(s, k) == IF k = 0 THEN <<0, 1>> ELSE Add(Inv(s[k]), SumInv(s, k - 1))
Harm(s) == Inv(Mul(SumInv(s, Len(s)), <<1, Len(s)>>))

RECURSIVE Sum(_, _)
Sum(s, k) == IF k = 0 THEN 0 ELSE s[k] + Sum(s, k - 1)

ReEstimate == IF zs = <<>> THEN <<1, 1>> ELSE Harm(zs)

Recorded(a) ==
    CASE Variant = "fixed"   -> IF a < N THEN Frac(a) ELSE ReEstimate
      [] Variant = "addcorr" -> IF a < N THEN Mul(ReEstimate, Frac(a)) ELSE ReEstimate
      [] Variant = "pooled"  -> Norm(<<Sum(as, Len(as)) + a, (Len(as) + 1) * N>>)

Init == as = <<>> /\ zs = <<>>

\* one warm-up iteration; a >= 1 (a batch without any finite draw is the separate known finding)
Warm(a) == /\ Len(as) < T
           /\ as' = Append(as, a)
           /\ zs' = Append(zs, Recorded(a))

Next == \E a \in 1..N : Warm(a)
Spec == Init /\ [][Next]_vars

Lo(k) == LET m == CHOOSE i \in 1..k : \A j \in 1..k : as[i] <= as[j] IN Frac(as[m])
Hi(k) == LET m == CHOOSE i \in 1..k : \A j \in 1..k : as[i] >= as[j] IN Frac(as[m])

Once == \A k \in DOMAIN zs : Leq(Lo(k), zs[k]) /\ Leq(zs[k], Hi(k))
OneWhileNoInf == \A k \in DOMAIN zs : (\A j \in 1..k : as[j] = N) => zs[k] = <<1, 1>>
=============================================================================
