----------------------------- MODULE Posterior -----------------------------
(***************************************************************************)
(* C12 (component layer) - the posterior() contract.                       *)
(*                                                                         *)
(* tempest.core.SamplerCore.compute_posterior (public entry                *)
(* Sampler.posterior) as a state machine with one action per step of the   *)
(* code:                                                                   *)
(*                                                                         *)
(*   logw, _ = state.compute_logw_and_logz(1.0)                            *)
(*   weights = exp(logw - max); weights /= sum                             *)
(*   u, x, logl = history (flat); blobs = history or None     -- Load      *)
(*   if trim_importance_weights:                                           *)
(*       idx, weights = trim_weights(arange(N), weights, ess, bins)        *)
(*           i = bins - 1                                      -- TrimEnter *)
(*           while True:                                                   *)
(*               threshold = percentile(weights, percentiles[i])           *)
(*               mask = weights >= threshold                               *)
(*               if ess(weights[mask]) / ess(weights) >= ess: break        *)
(*               i -= 1                                        -- TrimRetreat*)
(*       u, x, logl, logw, blobs = (.)[idx]                    -- TrimAccept*)
(*                                                             (TrimSkip)  *)
(*   if resample:                                                          *)
(*       idx = systematic_resample(len(weights), weights)                  *)
(*       u, x, logl, logw, blobs = (.)[idx]                                *)
(*       weights = ones(len(idx)) / len(idx)                   -- ResampleDraw*)
(*                                                             (ResampleSkip)*)
(*   return x, weights, logl [, blobs] [, logw]                -- Return    *)
(*                                                                         *)
(* Encoding.  The history is N <= MaxLen tagged records; record id = its   *)
(* position 1..N in the flattened history; w[id] is its beta = 1           *)
(* importance weight as a small non-negative integer (the weight is        *)
(* w[id]/S).  Every array the code carries (u, x, logl, blobs, logw) is a  *)
(* sequence of record ids - "row p of this array is the row of record      *)
(* us[p] / xs[p] / ..." - so that "the same index vector is applied to all  *)
(* of them" is equality of sequences.  Weights are rationals wn[p]/wd.     *)
(*                                                                         *)
(* Trimming is tools.trim_weights exactly as coded; the operators are the  *)
(* ones of Trim.tla (C20), copied, and PosteriorLink.tla checks that the   *)
(* trimming steps of this module ARE steps of Trim.tla (refinement).  The  *)
(* comb is the (fixed) systematic comb of ResampleOps.tla (C06): half-open *)
(* cells [c_{j-1}, c_j), clamped at the last positive weight; the offset   *)
(* is the lattice point u0 = k/(2 wd), k even = every breakpoint, k odd =  *)
(* an interior point of every cell, i.e. every u0 in [0,1).                *)
(*                                                                         *)
(* amb flags the behaviours whose double-precision replay is not           *)
(* determined by the exact computation (not replayed, counted):            *)
(*   1 thresh_tie, 2 thresh_close, 3 ratio_tie, 4 ratio_close  (Trim.tla)  *)
(*   5 comb_break : a comb tooth exactly on a cumulative sum while the     *)
(*     weights are not exactly representable (they are only when all N     *)
(*     input weights are equal and N is a power of two).                   *)
(*                                                                         *)
(* Variant = "intended" is the contract; "stale_logw" is the code as it    *)
(* was pinned before its repair (log-weights returned untrimmed and        *)
(* unresampled): TLC refutes PO_EqualLen / PO_LogwRows on it.              *)
(***************************************************************************)
EXTENDS Integers, Sequences, FiniteSets, TLC, Functions

CONSTANTS MaxLen,      \* history sizes 1..MaxLen
          MaxSum,      \* integer weights >= 0 (zeros anywhere) with 1 <= sum <= MaxSum
          Bins,        \* set of bins_trim arguments (>= 2)
          EssPct,      \* set of ess_trim arguments in percent
          MarginInv,   \* decisions with relative margin < 1/MarginInv are flagged
          Variant      \* "intended" | "stale_logw"

VARIABLES w,       \* input: integer weights of the N records (never changes)
          flags,   \* input: <<resample, return_blobs, trim_importance_weights, return_logw>> in {0,1}
          hb,      \* input: 1 iff blobs_dtype is configured
          essp,    \* input: ess_trim in percent
          bins,    \* input: bins_trim
          pc,      \* "start" | "trim" | "loop" | "resample" | "return" | "done"
          i,       \* loop variable of trim_weights
          thN,     \* last evaluated threshold, theta = thN / (D * S)
          mask,    \* ids selected by the last evaluated threshold, in input order (boolean-mask indexing)
          us, xs, ls, bs, lws,   \* the arrays u, x, logl, blobs, logw as sequences of record ids
          wn, wd,  \* weights: wn[p] / wd
          k, cq,   \* comb offset u0 = k / (2 cq)   (k = -1, cq = 0: no draw)
          amb,     \* <<thresh_tie, thresh_close, ratio_tie, ratio_close, comb_break>> in {0,1}
          out      \* names of the returned tuple, in order

vars == <<w, flags, hb, essp, bins, pc, i, thN, mask, us, xs, ls, bs, lws, wn, wd, k, cq, amb, out>>

R == INSTANCE ResampleOps

Resample  == flags[1] = 1
RetBlobs  == flags[2] = 1
Trimming  == flags[3] = 1
RetLogw   == flags[4] = 1
HasBlobs  == hb = 1

-----------------------------------------------------------------------------
(* Arithmetic helpers and the percentile threshold: copied from Trim.tla    *)

Abs(x)     == IF x < 0 THEN -x ELSE x
Max2(x, y) == IF x >= y THEN x ELSE y
Min2(x, y) == IF x <= y THEN x ELSE y
SumOn(f, T) == SumFunctionOnSet(f, T)

Robust(x, y) == x # y /\ (Max2(x, y) \div Abs(x - y)) < MarginInv
Close(x, y)  == x # y /\ ~Robust(x, y)

Idx(v)   == 1..Len(v)
S1(v, m) == SumOn([j \in Idx(v) |-> v[j]], m)
S2(v, m) == SumOn([j \in Idx(v) |-> v[j] * v[j]], m)

N    == Len(w)
All  == 1..N
Ids  == [j \in All |-> j]
S    == S1(w, All)
SQ   == S2(w, All)
D    == 100 * Max2(bins - 1, 1)              \* percentiles[k]/100 = 99 k / D

PIdx(kk) == IF kk >= 0 THEN kk ELSE bins + kk
VNum(kk) == (N - 1) * 99 * PIdx(kk)          \* numpy's virtual index = VNum / D
Lo(kk)   == VNum(kk) \div D
Gn(kk)   == VNum(kk) % D                     \* interpolation fraction gamma = Gn / D

Sorted       == SortSeq(w, LAMBDA x, y : x < y)
OrderStat(r) == Sorted[r + 1]
LoVal(kk)    == OrderStat(Lo(kk))
HiVal(kk)    == OrderStat(Min2(Lo(kk) + 1, N - 1))

\* theta_k * S * D
ThetaN(kk) == LET a == LoVal(kk) IN a * D + (HiVal(kk) - a) * Gn(kk)
\* mask = weights >= threshold
MaskAt(kk) == LET t == ThetaN(kk) d == D IN {j \in All : w[j] * d >= t}
\* ess_trimmed / ess_total >= ess
RatioL(m)  == LET s == S1(w, m) IN s * s * SQ * 100
RatioR(m)  == LET s == S IN essp * S2(w, m) * s * s
RatioGE(m) == RatioL(m) >= RatioR(m)

ThreshTie(kk)   == Gn(kk) = 0 /\ VNum(kk) # 0
ThreshClose(kk) == LET t == ThetaN(kk) d == D IN \E j \in All : Close(w[j] * d, t)
RatioTie(m)     == RatioL(m) = RatioR(m)
RatioClose(m)   == Close(RatioL(m), RatioR(m))

B(p) == IF p THEN 1 ELSE 0
Or(a, b) == IF a = 1 \/ b = 1 THEN 1 ELSE 0
TrimFlags(kk, m) == <<B(ThreshTie(kk)), B(ThreshClose(kk)), B(RatioTie(m)), B(RatioClose(m)), 0>>
AddFlags(f, g)   == [p \in 1..5 |-> Or(f[p], g[p])]

\* boolean-mask indexing keeps the input order
MaskSeq(m) == SelectSeq(Ids, LAMBDA j : j \in m)
\* fancy indexing  arr[idx]
Take(s, idx) == [p \in 1..Len(idx) |-> s[idx[p]]]
ToSet(s) == {s[p] : p \in 1..Len(s)}

\* the only inputs on which the normalised double weights are exact (1/N, N a power of two)
ExactUniform == (\A j \in All : w[j] = w[1]) /\ N \in {1, 2, 4, 8}

-----------------------------------------------------------------------------
WeightVectors ==
    {v \in UNION {[1..n -> 0..MaxSum] : n \in 1..MaxLen} : S1(v, Idx(v)) \in 1..MaxSum}

MinOfSet(T) == CHOOSE x \in T : \A y \in T : x <= y

Init ==
    /\ w \in WeightVectors
    /\ flags \in [1..4 -> {0, 1}]
    /\ hb \in {0, 1}
    /\ IF flags[3] = 1 THEN essp \in EssPct /\ bins \in Bins
                       ELSE essp = MinOfSet(EssPct) /\ bins = MinOfSet(Bins)   \* unused arguments
    /\ pc = "start"
    /\ i = 0 /\ thN = 0 /\ mask = <<>>
    /\ us = <<>> /\ xs = <<>> /\ ls = <<>> /\ bs = <<>> /\ lws = <<>>
    /\ wn = <<>> /\ wd = 0
    /\ k = -1 /\ cq = 0
    /\ amb = <<0, 0, 0, 0, 0>>
    /\ out = <<>>

\* weights at beta = 1 over the whole history, normalised; the arrays of the flattened history
Load ==
    /\ pc = "start"
    /\ us' = Ids /\ xs' = Ids /\ ls' = Ids /\ lws' = Ids
    /\ bs' = IF HasBlobs THEN Ids ELSE <<>>                  \* blobs = None
    /\ wn' = w /\ wd' = S
    /\ pc' = "trim"
    /\ UNCHANGED <<w, flags, hb, essp, bins, i, thN, mask, k, cq, amb, out>>

TrimSkip ==
    /\ pc = "trim" /\ ~Trimming
    /\ pc' = "resample"
    /\ UNCHANGED <<w, flags, hb, essp, bins, i, thN, mask, us, xs, ls, bs, lws, wn, wd, k, cq, amb, out>>

TrimEnter ==
    /\ pc = "trim" /\ Trimming
    /\ i' = bins - 1
    /\ pc' = "loop"
    /\ UNCHANGED <<w, flags, hb, essp, bins, thN, mask, us, xs, ls, bs, lws, wn, wd, k, cq, amb, out>>

\* `percentiles[i]` raises IndexError for i < -bins
Indexable == i >= -bins

TrimRetreat ==
    /\ pc = "loop" /\ Indexable
    /\ LET m == MaskAt(i) IN
         /\ ~RatioGE(m)
         /\ mask' = MaskSeq(m)
         /\ amb' = AddFlags(amb, TrimFlags(i, m))
    /\ thN' = ThetaN(i)
    /\ i' = i - 1
    /\ UNCHANGED <<w, flags, hb, essp, bins, pc, us, xs, ls, bs, lws, wn, wd, k, cq, out>>

\* break; return samples[mask], weights[mask]/sum ; then the caller indexes every array with idx
TrimAccept ==
    /\ pc = "loop" /\ Indexable
    /\ LET m == MaskAt(i) idx == MaskSeq(MaskAt(i)) IN
         /\ RatioGE(m)
         /\ mask' = idx
         /\ amb' = AddFlags(amb, TrimFlags(i, m))
         /\ us' = Take(us, idx) /\ xs' = Take(xs, idx) /\ ls' = Take(ls, idx)
         /\ lws' = IF Variant = "stale_logw" THEN lws ELSE Take(lws, idx)
         /\ bs' = IF HasBlobs THEN Take(bs, idx) ELSE bs
         /\ wn' = Take(w, idx) /\ wd' = S1(w, m)
    /\ thN' = ThetaN(i)
    /\ pc' = "resample"
    /\ UNCHANGED <<w, flags, hb, essp, bins, i, k, cq, out>>

ResampleSkip ==
    /\ pc = "resample" /\ ~Resample
    /\ pc' = "return"
    /\ UNCHANGED <<w, flags, hb, essp, bins, i, thN, mask, us, xs, ls, bs, lws, wn, wd, k, cq, amb, out>>

\* idx = systematic_resample(len(weights), weights) with numpy.random.random() = kk/(2 wd)
DrawAt(kk) ==
    /\ LET n == Len(wn) idx == R!Intended(Len(wn), wn, wd, kk).out IN
         /\ us' = Take(us, idx) /\ xs' = Take(xs, idx) /\ ls' = Take(ls, idx)
         /\ lws' = IF Variant = "stale_logw" THEN lws ELSE Take(lws, idx)
         /\ bs' = IF HasBlobs THEN Take(bs, idx) ELSE bs
         /\ wn' = [p \in 1..Len(idx) |-> 1] /\ wd' = Len(idx)      \* ones(len(idx)) / len(idx)
         /\ amb' = [amb EXCEPT ![5] = B(R!IsBreak(n, wn, wd, kk) /\ ~ExactUniform)]
    /\ k' = kk /\ cq' = wd

ResampleDraw ==
    /\ pc = "resample" /\ Resample
    /\ \E kk \in 0..(2 * wd - 1) : DrawAt(kk)
    /\ pc' = "return"
    /\ UNCHANGED <<w, flags, hb, essp, bins, i, thN, mask, out>>

\* the code's nested ifs
Return ==
    /\ pc = "return"
    /\ out' = IF RetBlobs /\ HasBlobs                         \* `return_blobs and blobs is not None`
                THEN (IF RetLogw THEN <<"x", "weights", "logl", "blobs", "logw">>
                                 ELSE <<"x", "weights", "logl", "blobs">>)
                ELSE (IF RetLogw THEN <<"x", "weights", "logl", "logw">>
                                 ELSE <<"x", "weights", "logl">>)
    /\ pc' = "done"
    /\ UNCHANGED <<w, flags, hb, essp, bins, i, thN, mask, us, xs, ls, bs, lws, wn, wd, k, cq, amb>>

Next == \/ Load \/ TrimSkip \/ TrimEnter \/ TrimRetreat \/ TrimAccept
        \/ ResampleSkip \/ ResampleDraw \/ Return

Spec == Init /\ [][Next]_vars

-----------------------------------------------------------------------------
(* Properties                                                               *)

Done    == pc = "done"
Loaded  == pc \notin {"start"}
Trimmed == pc \in {"resample", "return", "done"}      \* the trimming step is over (taken or skipped)
Kept    == IF Trimming THEN mask ELSE Ids            \* rows in play when resampling starts

TypeOK ==
    /\ pc \in {"start", "trim", "loop", "resample", "return", "done"}
    /\ flags \in [1..4 -> {0, 1}] /\ hb \in {0, 1}
    /\ essp \in EssPct /\ bins \in Bins
    /\ amb \in [1..5 -> {0, 1}]
    /\ \A p \in 1..Len(mask) : mask[p] \in All
    /\ \A p \in 1..Len(xs) : xs[p] \in All
    /\ (k = -1 /\ cq = 0) \/ (cq > 0 /\ k \in 0..(2 * cq - 1))

\* all arrays stay parallel at every step boundary: equal lengths ...
PO_EqualLen ==
    Loaded => /\ Len(us) = Len(xs) /\ Len(ls) = Len(xs) /\ Len(lws) = Len(xs) /\ Len(wn) = Len(xs)
              /\ HasBlobs => Len(bs) = Len(xs)
              /\ Len(xs) > 0
\* ... and row p of samples / logL / blobs carries the id of the same record
PO_Rows ==
    Loaded => /\ us = xs /\ ls = xs
              /\ HasBlobs => bs = xs
\* ... and so does row p of the log-weights
PO_LogwRows ==
    Loaded => /\ Len(lws) = Len(xs)
              /\ \A p \in 1..Min2(Len(lws), Len(xs)) : lws[p] = xs[p]

\* weights >= 0 and sum to exactly one
PO_Weights ==
    Loaded => /\ wd > 0
              /\ \A p \in 1..Len(wn) : wn[p] >= 0
              /\ SumOn(wn, 1..Len(wn)) = wd
\* without resampling, weight p is the weight of record xs[p], renormalised over the kept rows
PO_WeightsAligned ==
    (Trimmed /\ Len(wn) = Len(xs) /\ (~Resample \/ pc = "resample")) =>
        LET sk == S1(w, ToSet(Kept)) IN \A p \in 1..Len(wn) : wn[p] * sk = w[xs[p]] * wd
\* with resampling the weights are uniform 1/n
PO_Uniform ==
    (Done /\ Resample) => \A p \in 1..Len(wn) : wn[p] * Len(wn) = wd

\* the kept set under trimming is a non-empty upper set of the weights, in input order
PO_UpperSet ==
    (Trimmed /\ Trimming) =>
        LET ms == ToSet(mask) d == D IN
        /\ mask # <<>>
        /\ \A j \in ms : \A j2 \in All \ ms : w[j2] < w[j]
        /\ \A p \in 2..Len(mask) : mask[p - 1] < mask[p]
        /\ ms = {j \in All : w[j] * d >= thN}
PO_EssRatio == (Trimmed /\ Trimming) => RatioGE(ToSet(mask))
PO_TrimTerminates == i >= 0
\* without trimming nothing is dropped; without resampling the kept rows are returned in order
PO_NoResampleKeepsOrder == (Done /\ ~Resample) => xs = Kept
\* resampling draws exactly as many rows as are in play, all of them kept rows of positive weight
PO_FromKept ==
    (Done /\ Resample) => /\ Len(xs) = Len(Kept)
                          /\ LET ks == ToSet(Kept) IN \A p \in 1..Len(xs) : xs[p] \in ks /\ w[xs[p]] > 0
                          /\ \A p \in 2..Len(xs) : xs[p - 1] <= xs[p]

\* output arity as documented
Names(rb, rl, cfg) == <<"x", "weights", "logl">>
                      \o (IF rb = 1 /\ cfg = 1 THEN <<"blobs">> ELSE <<>>)
                      \o (IF rl = 1 THEN <<"logw">> ELSE <<>>)
PO_Arity == Done => out = Names(flags[2], flags[4], hb)
PO_BlobsOnlyIfAsked ==
    Done => (("blobs" \in ToSet(out)) <=> (RetBlobs /\ HasBlobs))
\* without blobs configured return_blobs changes nothing (the rows do not depend on it by construction)
PO_NoBlobsNoChange ==
    (Done /\ ~HasBlobs) => /\ out = Names(1 - flags[2], flags[4], hb)
                           /\ bs = <<>>

\* un-flagged threshold ties are exact in double precision too (Trim.tla, ExactTieOnly)
ExactTieOnly ==
    pc = "loop" =>
        LET t == ThetaN(i) d == D IN
        (\E j \in All : w[j] * d = t) => (Gn(i) = 0 \/ LoVal(i) = HiVal(i))

=============================================================================
