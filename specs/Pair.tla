-------------------------------- MODULE Pair --------------------------------
(***************************************************************************)
(* Self-composition of PSRun at the grain of committed iterations: two runs *)
(* stepping in lock-step under the coupling relation R(c)                   *)
(*   same temperature, same particles in every committed batch, equal       *)
(*   normalised weights and ESS, and  logz_B - logz_A = beta * c            *)
(* at every iteration and at the final evidence (beta = 1).                 *)
(* c = 0 and exact comparison is the "same run" relation used for C13       *)
(* (evaluation strategy transparent) and C09 (seeded runs reproducible);    *)
(* c # 0 is the likelihood-rescaling relation of C10.                       *)
(* A pair may also be required to DIFFER (different seeds, C09).            *)
(*                                                                          *)
(* Input: JSON list of pairs [kind, a, b, fin]; a and b are the per-        *)
(* iteration projections of the two runs; tags are dense ids shared by the  *)
(* two runs of a pair (equal tag <=> equal content, or equal up to the      *)
(* rounding tolerance where the property says so - decided by the           *)
(* projection and recorded in the replay file).  Verdicts are total: every  *)
(* step is consumed and the failing clauses are printed.                    *)
(***************************************************************************)
EXTENDS Integers, Sequences, FiniteSets, TLC, Json, IOUtils

Pairs == JsonDeserialize(IOEnv.TRACE_FILE)

VARIABLES pid, i, diverged, fails

vars == <<pid, i, diverged, fails>>

P == Pairs[pid]
LenMin == IF Len(P.a) < Len(P.b) THEN Len(P.a) ELSE Len(P.b)

Failing(c) == {n \in DOMAIN c : ~c[n]}
Report(f) == IF f = {} THEN TRUE ELSE PrintT(<<"FAIL", pid, i, P.kind, f>>)

Init == pid \in 1..Len(Pairs) /\ i = 1 /\ diverged = FALSE /\ fails = {}

\* coupling clauses for one committed iteration
StepClauses(x, y) ==
    [SameIter   |-> x.iter = y.iter,
     SameBeta   |-> x.beta = y.beta,
     SameBatch  |-> x.batch = y.batch,
     SameEss    |-> x.ess = y.ess,
     ZShift     |-> y.zres = 0,          \* residual of logz_B - logz_A - beta*c, 0 = within tolerance
     SameCalls  |-> x.calls = y.calls]

Step ==
    /\ i <= LenMin
    /\ LET f == Failing(StepClauses(P.a[i], P.b[i])) IN
       /\ fails' = (IF P.kind = "same" THEN f ELSE {})
       /\ diverged' = (diverged \/ f # {})
       /\ (IF P.kind = "same" THEN Report(f) ELSE TRUE)
    /\ i' = i + 1
    /\ UNCHANGED pid

\* end of both runs: same number of iterations, same final evidence (shifted by c) and posterior weights
Final ==
    /\ i = LenMin + 1
    /\ LET f == Failing([SameLength  |-> Len(P.a) = Len(P.b),
                         FinalZShift |-> P.fin.zres = 0,
                         SameWeights |-> P.fin.wa = P.fin.wb])
           d == diverged \/ f # {}
           g == IF P.kind = "same" THEN f
                ELSE IF d THEN {} ELSE {"MustDiffer"}   \* runs required to differ are identical
       IN /\ fails' = g
          /\ diverged' = d
          /\ Report(g)
    /\ i' = i + 1
    /\ UNCHANGED pid

Next == Step \/ Final
Spec == Init /\ [][Next]_vars

TypeOK == i >= 1 /\ i <= LenMin + 2
=============================================================================
