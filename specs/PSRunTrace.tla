----------------------------- MODULE PSRunTrace -----------------------------
(***************************************************************************)
(* Trace validation for PSRun: recorded executions of the real sampler     *)
(* (one JSON object per run: configuration + event list, produced by       *)
(* vlib/psrun.py from the hooks in /repo) are replayed against the named    *)
(* clauses of PSRun.tla.                                                    *)
(*                                                                          *)
(* Verdicts are TOTAL: every event is consumed, the abstract state is bound  *)
(* to the logged post-state (so the rest of the trace is still checked       *)
(* after a failure), and `fails` is the set of names of the clauses of the   *)
(* corresponding PSRun action that do not hold for (state, event).  A        *)
(* failing event is printed as <<"FAIL", tid, l, event name, fails>>.        *)
(* Batched: all traces of a file are validated in one TLC run (one initial   *)
(* state per trace).                                                        *)
(***************************************************************************)
EXTENDS PSRun, Json, IOUtils

Traces == JsonDeserialize(IOEnv.TRACE_FILE)

VARIABLES tid,    \* which trace
          l,      \* position in the trace (next event to consume)
          fails,  \* clause names violated by the last consumed event
          saving  \* a checkpoint save is in progress (between SaveBegin and SaveEnd)

tvars == <<vars, tid, l, fails, saving>>

Ev == Traces[tid].events[l]
IsEvent(e) == l <= Len(Traces[tid].events) /\ Ev.ev = e

ToRec(a) == [u |-> a[1], x |-> a[2], l |-> a[3], b |-> a[4]]
ToSlot(a) == [rec |-> ToRec(a), lab |-> a[5], fin |-> a[6] = 1]
ToSlots(s) == [i \in DOMAIN s |-> ToSlot(s[i])]
ToRecs(s) == [i \in DOMAIN s |-> ToRec(s[i])]
ToBools(s) == [i \in DOMAIN s |-> s[i] = 1]

Report(f) == IF f = {} THEN TRUE ELSE PrintT(<<"FAIL", tid, l, Ev.ev, f>>)

StepS(f, sv) == /\ fails' = f
                /\ Report(f)
                /\ l' = l + 1
                /\ saving' = sv
                /\ UNCHANGED tid
Step(f) == StepS(f, saving)

TraceInit ==
    /\ tid \in 1..Len(Traces)
    /\ l = 1
    /\ fails = {} /\ saving = FALSE
    /\ pc = "ctor"
    /\ cfg = Traces[tid].cfg
    /\ iter = 0 /\ beta = 0 /\ ess = 0 /\ logz = 0 /\ wts = 0 /\ calls = 0 /\ evals = 0
    /\ cur = <<>> /\ hist = <<>> /\ clus = [fitted |-> FALSE, K |-> 0] /\ modes = <<>> /\ nsw = 0

-----------------------------------------------------------------------------
\* RunBegin of a fresh run: the state is bound to what the run starts from
TRunBegin ==
    /\ IsEvent("RunBegin")
    /\ LET o == Ev IN
       /\ pc' = "ready"
       /\ iter' = o.iter /\ beta' = o.beta /\ calls' = o.calls
       /\ hist' = [t \in DOMAIN o.hist |-> [iter |-> o.hist[t].iter, beta |-> o.hist[t].beta, parts |-> ToRecs(o.hist[t].parts)]]
       /\ evals' = o.calls          \* ghost counter starts in agreement with the restored call count
       /\ clus' = [fitted |-> FALSE, K |-> 0]
       /\ UNCHANGED <<cfg, ess, logz, wts, cur, modes, nsw>>
       /\ Step(Failing([IF_Zero |-> (~o.resumed) => IF_Zero(o), IF_EmptyHistory |-> (~o.resumed) => IF_EmptyHistory(o),
                        IF_HistoryKept |-> (~o.resumed) => IF_HistoryKept(o)]))

PcOk(b) == [PC_Order |-> b]

TReweight ==
    /\ IsEvent("Reweight")
    /\ LET o == Ev IN
       /\ ReweightU(o)
       \* after run() has returned the caller may keep iterating with sample(): Reweight is also legal from "done"
       /\ Step(Failing(PcOk(pc \in {"ready", "done"}) @@ RW_Clauses(o)))

TTrain ==
    /\ IsEvent("Train")
    /\ LET o == Ev IN
       /\ clus' = [fitted |-> o.fitted, K |-> o.K]
       /\ modes' = o.modes
       /\ pc' = "trained"
       /\ UNCHANGED <<cfg, iter, beta, ess, logz, wts, calls, evals, cur, hist, nsw>>
       /\ Step(Failing(PcOk(pc = "reweighted") @@ TR_Clauses(o)))

TResample ==
    /\ IsEvent("Resample")
    /\ LET o == [slots |-> ToSlots(Ev.slots), labelsFromModel |-> Ev.labelsFromModel] IN
       /\ cur' = o.slots
       /\ pc' = "resampled"
       /\ UNCHANGED <<cfg, iter, beta, ess, logz, wts, calls, evals, hist, clus, modes, nsw>>
       /\ Step(Failing(PcOk(pc = "trained") @@ RS_Clauses(o)))

TMutatePrior ==
    /\ IsEvent("MutatePrior")
    /\ LET o == [slots |-> ToSlots(Ev.slots), dEvals |-> Ev.dEvals, calls |-> Ev.calls,
                 nInf |-> Ev.nInf, zInHull |-> Ev.zInHull, logz |-> Ev.logz] IN
       /\ MutatePriorU(o)
       \* the beta = 0 branch of the mutation step (fresh prior draws) is taken only at temperature EXACTLY 0: at any positive
       \* temperature, however small, the particles are moved by the MCMC kernel that leaves L^beta x prior invariant
       /\ Step(Failing(PcOk(pc = "resampled") @@ [MP_OnlyAtZero |-> beta = 0] @@ MP_Clauses(o)))

TMutateBegin ==
    /\ IsEvent("MutateBegin")
    /\ LET o == [slots |-> ToSlots(Ev.slots), modes |-> Ev.modes, modesOK |-> Ev.modesOK,
                 periodic |-> Ev.periodic, reflective |-> Ev.reflective] IN
       /\ MutateBeginU(o)
       /\ Step(Failing(PcOk(pc = "resampled" /\ beta > 0) @@ MB_Clauses(o)))

TSweep ==
    /\ IsEvent("Sweep")
    /\ LET o == [mask |-> ToBools(Ev.mask), prop |-> ToRecs(Ev.prop), slots |-> ToSlots(Ev.slots), dEvals |-> Ev.dEvals,
                 sigmaOK |-> Ev.sigmaOK] IN
       /\ SweepU(o)
       /\ Step(Failing(PcOk(pc = "mutating") @@ SW_Clauses(o)))

TMutateEnd ==
    /\ IsEvent("MutateEnd")
    /\ LET o == [slots |-> ToSlots(Ev.slots), calls |-> Ev.calls, dEvals |-> Ev.dEvals, steps |-> Ev.steps] IN
       /\ MutateEndU(o)
       /\ Step(Failing(PcOk(pc = "mutating") @@ ME_Clauses(o)))

TCommit ==
    /\ IsEvent("Commit")
    /\ LET o == [batch |-> ToRecs(Ev.batch), histLen |-> Ev.histLen, keyLens |-> Ev.keyLens, prefixSame |-> Ev.prefixSame,
                 blobsOK |-> Ev.blobsOK, scalarsOK |-> Ev.scalarsOK] IN
       /\ CommitU(o)
       /\ Step(Failing(PcOk(pc = "mutated") @@ CM_Clauses(o)))

TTerminate ==
    /\ IsEvent("Terminate")
    /\ LET o == Ev IN
       /\ TerminateU(o)
       /\ Step(Failing(PcOk(pc = "ready" /\ hist # <<>>) @@ TM_Clauses(o)))

\* an exception escaped a pipeline step / the run: no PSRun action matches it
TRaised ==
    /\ IsEvent("Raised")
    /\ pc' = "done"
    /\ UNCHANGED <<cfg, iter, beta, ess, logz, wts, calls, evals, cur, hist, clus, modes, nsw>>
    /\ Step({"NoRaise"} \cup
            \* raised inside Train in a state where the code-shaped predict-only branch runs on an unfitted clusterer
            (IF pc = "reweighted" /\ cfg.clustering /\ beta > 0 /\ ~clus.fitted /\ iter % cfg.clusterEvery # 0
             THEN {"RZ_UnfittedPredict"} ELSE {}) \cup
            \* raised while a checkpoint was being written: saving must work in every configuration
            (IF saving THEN {"RZ_SaveFailed"} ELSE {}))

\* observations that have no PSRun action of their own (checked against the state, no state change)
TPosterior ==
    /\ IsEvent("Posterior")
    /\ LET o == Ev
           rows == ToRecs(o.rows)
       IN
       /\ UNCHANGED vars
       /\ Step(Failing([PC_Order |-> pc \in {"done", "ready"} /\ hist # <<>>,
                        PO_EqualLen |-> o.lensEqual,
                        PO_Rows |-> \A i \in DOMAIN rows : Coherent(rows[i]) /\ rows[i] \in Pool,
                        PO_LogwRows |-> o.logwRowsOK,
                        PO_Weights |-> o.nonneg /\ o.sumOne,
                        PO_Uniform |-> o.resample => o.uniform,
                        PO_BlobsOnlyIfAsked |-> o.arityOK,
                        \* trimmed importance weights keep at least the requested fraction of the untrimmed ESS
                        PO_TrimESS |-> o.trimEssOK]))

\* checkpoint save bracket (no PSRun state change: saving must not alter the run)
TSaveBegin == IsEvent("SaveBegin") /\ UNCHANGED vars /\ StepS(Failing([SV_NotNested |-> ~saving]), TRUE)
TSaveEnd   == IsEvent("SaveEnd") /\ UNCHANGED vars /\ StepS(Failing([SV_Bracket |-> saving, SV_StateUntouched |-> Ev.stateSame]), FALSE)

\* a checkpoint was loaded into a freshly constructed sampler: everything that was saved is restored exactly
TLoad ==
    /\ IsEvent("Load")
    /\ UNCHANGED vars
    /\ Step(Failing([LD_Current |-> Ev.curSame, LD_History |-> Ev.histSame, LD_Counters |-> Ev.countersSame,
                     LD_Rng |-> Ev.rngSame, LD_Known |-> Ev.known]))

\* the caller overwrote everything a public accessor returned and re-read the state: nothing observable may have changed
TAccessor ==
    /\ IsEvent("Accessor")
    /\ UNCHANGED vars
    /\ Step(Failing([AC_Stable |-> Ev.stable]))

TraceNext ==
    \/ TAccessor \/ TSaveBegin \/ TSaveEnd \/ TLoad
    \/ TRunBegin \/ TReweight \/ TTrain \/ TResample \/ TMutatePrior \/ TMutateBegin
    \/ TSweep \/ TMutateEnd \/ TCommit \/ TTerminate \/ TRaised \/ TPosterior

TraceSpec == TraceInit /\ [][TraceNext]_tvars

\* invariants of PSRun evaluated at every state of every validated trace are reported through clauses;
\* these two are structural sanity checks of the trace machinery itself
TraceTypeOK == l >= 1 /\ l <= Len(Traces[tid].events) + 1
=============================================================================
