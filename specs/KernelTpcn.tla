----------------------------- MODULE KernelTpcn -----------------------------
(***************************************************************************)
(* C03 (b): the t-preconditioned Crank-Nicolson proposal of                 *)
(* tempest.mcmc.TPCNRunner and its reversibility identity, over exact        *)
(* rationals.                                                                *)
(*                                                                          *)
(* Units.  h = 1/(2M).  A state is u = c*h (c odd: cell centres), the mode   *)
(* mean is mu = m*h (m integer), n = c - m.  The scale matrix is             *)
(* Sigma = h^2 * S, S = L L^T with an INTEGER lower-triangular L (so the     *)
(* Cholesky factor h*L is exact in doubles), d <= 2.  The step size is       *)
(* sigma = 3/5, so sqrt(1 - sigma^2) = 4/5.                                  *)
(*                                                                          *)
(* The code (one action per statement of _propose):                          *)
(*   Dot         dot_product = diff' Sigma^-1 diff          = Qf(n)/det(S)   *)
(*   GammaParams gamma_shape = (d + nu)/2 ; gamma_scale = 2/(nu + dot)       *)
(*   DrawS       s = 1/gamma(shape, scale)   (s ~ InvGamma(shape, rate =     *)
(*               (nu + dot)/2); the harness's stub returns s = (sq2/2)^2)    *)
(*   Draw(z)     proposal = mu + sqrt(1-sigma^2) diff + sigma sqrt(s) L z    *)
(*               then fold (periodic / reflective), then bounds check;       *)
(*               out of bounds => Impl_Redraw(z') with the SAME s            *)
(*                                                                          *)
(* Proposal density (derivation).  Given u, y = u' - mu - a(u - mu) is       *)
(* N(0, sigma^2 s Sigma) with s ~ InvGamma(k, G/2), G = nu + delta(u),       *)
(* delta(u) = (u-mu)' Sigma^-1 (u-mu).  Integrating s out,                   *)
(*     q(u -> u') = C * G(u)^k * T(u,u')^-(k + d/2),                         *)
(*     T(u,u') = G(u) + |u' - mu - a(u - mu)|^2_Sigma / sigma^2              *)
(* (a multivariate Student-t in y with 2k degrees of freedom and scale       *)
(* sigma^2 (G/2k) Sigma; C does not depend on u, u').  With k = (nu+d)/2:    *)
(* dof nu + d and scale sigma^2 (nu + delta(u))/(nu + d) Sigma.              *)
(* With a^2 + sigma^2 = 1,                                                   *)
(*   T(u,u') = nu + (|x|^2 - 2a x.x' + |x'|^2)/sigma^2,  x = u - mu,         *)
(* which is symmetric: the polynomial identity                               *)
(*        Delta(u) + Q(u,u') = Delta(u') + Q(u',u).                          *)
(* The code's correction is exp(factor) = (G(u')/G(u))^((nu+d)/2)            *)
(* (the ratio of the Student-t(nu) reference densities).  Hence              *)
(*   exp(factor) q(u->u')/q(u'->u)                                           *)
(*        = (G(u')/G(u))^(pa - k) * (T(u,u')/T(u',u))^-(k + d/2),  [ID]      *)
(* pa = (nu+d)/2, and the Metropolis ratio is pi(u')/pi(u) exactly when [ID] *)
(* is 1 for every pair.  All bases are positive rationals, so [ID] = 1 is     *)
(* decided WITHOUT evaluating powers (TLC has 32-bit integers):              *)
(*   T(u,u') = T(u',u):  [ID] = 1  iff  pa = k  or  G(u) = G(u')              *)
(*   T(u,u') # T(u',u) and pa = k:  [ID] # 1                                  *)
(* (the remaining case needs two simultaneous faults and is not used).       *)
(* T and G are polynomials of degree <= 2 in each coordinate of u and u', so *)
(* validity of the identity on a grid with >= 3 points per coordinate is     *)
(* validity everywhere.                                                      *)
(*                                                                          *)
(* Degrees of freedom.  Nothing above depends on nu being small: modes with   *)
(* nu = 100 ... 10^6 (the library's fallback when a fit finds no heavy tail) *)
(* are enumerated like the others; the inverse-gamma draw is made ONCE per   *)
(* proposal with shape (d + nu)/2 and scale 2/(nu + dot) for EVERY nu (for   *)
(* nu -> infinity s concentrates at 1 and the correction tends to the        *)
(* Gaussian ratio, but no finite nu is a Gaussian: replacing the draw by     *)
(* s = 1 while keeping the Student-t(nu) correction breaks the identity).    *)
(*                                                                          *)
(* Hard walls.  The derivation above is for the proposal made ONCE.  The  *)
(* state `outside` (first draw out of the cube) is FINAL under the intended  *)
(* rule: _propose returns the point and the sweep rejects it (Kernel.tla,    *)
(* OutReject).  Under the code-shaped rule Impl_Redraw the innovation is     *)
(* drawn again with the same s, i.e. given s the proposal is conditioned on  *)
(* landing inside: q(u'|u,s)/Pin(u,s) with Pin(u,s) = P(inside | u, s), a    *)
(* state-dependent normaliser that the correction does not contain - the     *)
(* mechanism for which TLC refutes detailed balance on the lattice           *)
(* (Kernel.tla, Rule = "impl").  Pin is a Gaussian integral over the cube    *)
(* and is not rational: for tpCN the rule is established by replay and the   *)
(* consequence is confirmed by simulation only.                              *)
(*                                                                          *)
(* Folded coordinates.  With a periodic (reflective) coordinate the proposal *)
(* density on the folded space is the image sum                              *)
(*     qf(u -> u') = SUM_k q(u -> u' + k e_i)                                *)
(*                  (reflective: SUM_k q(u -> u'+2k e_i) + q(u -> R u'+2k e_i),*)
(*                   R the reflection of coordinate i about 0)               *)
(* while the code's correction still uses the principal image only, so       *)
(* reversibility on the folded space needs                                   *)
(*     SUM_k T(u, img_k u')^-r = SUM_k T(u', img_k u)^-r,   r = k + d/2.     *)
(* The module tabulates the integers T(u, img_k u') for |k| <= KImg (action  *)
(* Images); the sums are real numbers with 30-digit rationals and are        *)
(* evaluated by the harness with exact fractions and an explicit tail bound. *)
(***************************************************************************)
EXTENDS Integers, Sequences, FiniteSets, TLC

CONSTANTS M,         \* lattice resolution: u = c/(2M), c odd
          Modes,     \* sequence of << d, nu, m, L >> : mean m (integer vector, units h), L integer lower-triangular
          Variant,   \* "intended" | "shape_nu_half" | "no_sqrt" | "sign_flipped"   (seeded wrong variants)
          SqS,       \* set of sq2 = 2*sqrt(s) returned through the gamma stub
          Zs,        \* set of integer innovations per coordinate
          MaxDraws,  \* bound on the redraw loop
          KImg       \* images |k| <= KImg are tabulated

VARIABLES pc, mi, kinds, c, qf, shape2, scale, sq2, zs, prop, fol, ok, img, accf, amb

vars == <<pc, mi, kinds, c, qf, shape2, scale, sq2, zs, prop, fol, ok, img, accf, amb>>

Kinds == {"hard", "periodic", "reflective"}

\* Boundary maps: Fold.tla's operators (copied; resolution below is 2M*PD)
Wrap(k, m) == k % m
Tri(k, m) == LET r == k % (2 * m) IN IF r <= m THEN r ELSE 2 * m - r
FoldCoord(kind, k, m) ==
    CASE kind = "hard"       -> k
      [] kind = "periodic"   -> Wrap(k, m)
      [] kind = "reflective" -> Tri(k, m)
FoldVec(ks, v, m) == [i \in DOMAIN v |-> FoldCoord(ks[i], v[i], m)]
InBounds(ks, v, m) == \A i \in DOMAIN v : ks[i] = "hard" => (0 <= v[i] /\ v[i] <= m)

-----------------------------------------------------------------------------
(* Mode data *)

Dm(k)  == Modes[k][1]
Nu(k)  == Modes[k][2]
Mu(k)  == Modes[k][3]
L(k)   == Modes[k][4]

Cells == {x \in 1..(2 * M - 1) : x % 2 = 1}
Cube(d) == [1..d -> Cells]

\* S = L L^T, its determinant and adjugate (d <= 2); S^-1 = Adj/Det
S11(k) == L(k)[1][1] * L(k)[1][1]
S21(k) == L(k)[2][1] * L(k)[1][1]
S22(k) == L(k)[2][1] * L(k)[2][1] + L(k)[2][2] * L(k)[2][2]
Det(k) == IF Dm(k) = 1 THEN S11(k) ELSE S11(k) * S22(k) - S21(k) * S21(k)

\* quadratic form v' Adj(S) v  (so v' S^-1 v = Qf(k, v) / Det(k))
Qf(k, v) == IF Dm(k) = 1 THEN v[1] * v[1]
            ELSE S22(k) * v[1] * v[1] - 2 * S21(k) * v[1] * v[2] + S11(k) * v[2] * v[2]

\* L z
LMul(k, z) == IF Dm(k) = 1 THEN <<L(k)[1][1] * z[1]>>
              ELSE <<L(k)[1][1] * z[1], L(k)[2][1] * z[1] + L(k)[2][2] * z[2]>>

Diff(k, cc) == [i \in 1..Dm(k) |-> cc[i] - Mu(k)[i]]

-----------------------------------------------------------------------------
(* The proposal as the code is meant to compute it (and the seeded variants) *)

\* sigma = 3/5 ; contraction a = A/B : sqrt(1 - sigma^2) = 4/5, or (missing square root) 1 - sigma^2 = 16/25
CA == IF Variant = "no_sqrt" THEN 16 ELSE 4
CB == IF Variant = "no_sqrt" THEN 25 ELSE 5

\* twice the gamma shape: (d + nu)/2 intended
GammaShape2(k) == IF Variant = "shape_nu_half" THEN Nu(k) ELSE Dm(k) + Nu(k)
\* gamma scale 2/(nu + dot) = 2 Det / (nu Det + Qf)   as << num, den >> ; rate = 1/scale
GammaScale(k, n) == <<2 * Det(k), Nu(k) * Det(k) + Qf(k, n)>>
GammaRate(k, n) == <<Nu(k) * Det(k) + Qf(k, n), 2 * Det(k)>>

\* proposal in units of h/PD:  mu + a diff + sigma sqrt(s) L z,  sqrt(s) = q2/2
PD == 50
Map(k, cc, q2, z) ==
    LET n == Diff(k, cc) lz == LMul(k, z)
    IN  [i \in 1..Dm(k) |-> PD * Mu(k)[i] + ((PD * CA) \div CB) * n[i] + 15 * q2 * lz[i]]
        \* (3/5)(q2/2) = 15 q2 / 50

\* acceptance factor: exp(factor) = (G(u')/G(u))^(PA2/2), G = nu + delta  (numerators over Det)
GN(k, n) == Nu(k) * Det(k) + Qf(k, n)
PA2(k) == IF Variant = "sign_flipped" THEN -(Dm(k) + Nu(k)) ELSE Dm(k) + Nu(k)
AccFactor(k, n, n2) == <<GN(k, n2), GN(k, n), PA2(k)>>      \* base numerator, base denominator, twice the exponent

\* proposal density q(u->u') = C G(u)^(PQ2/2) T(u,u')^-(R2/2) :
PQ2(k) == GammaShape2(k)
R2(k)  == GammaShape2(k) + Dm(k)
\* T(u,u') = TN / (9 CB^2 Det) :  nu + delta(u) + |n' - a n|^2_S / sigma^2
TN(k, n, n2) == 9 * CB * CB * GN(k, n) + 25 * Qf(k, [i \in 1..Dm(k) |-> CB * n2[i] - CA * n[i]])

\* exp(factor) q(u->u')/q(u'->u) = 1, decided without powers (see the header)
IdentityHolds(k, n, n2) ==
    IF TN(k, n, n2) = TN(k, n2, n)
    THEN (PA2(k) = PQ2(k) \/ GN(k, n) = GN(k, n2))
    ELSE IF PA2(k) = PQ2(k) THEN FALSE
         ELSE Assert(FALSE, "two simultaneous faults: the identity would need powers")

-----------------------------------------------------------------------------
(* State machine: the statements of _propose for one walker *)

Init ==
    /\ pc = "start"
    /\ mi \in DOMAIN Modes
    /\ kinds \in [1..Dm(mi) -> Kinds]
    /\ c \in Cube(Dm(mi))
    /\ qf = <<>> /\ shape2 = 0 /\ scale = <<>> /\ sq2 = 0 /\ zs = <<>> /\ prop = <<>> /\ fol = <<>> /\ ok = FALSE
    /\ img = <<>> /\ accf = <<>> /\ amb = FALSE

Dot ==
    /\ pc = "start"
    /\ qf' = <<Qf(mi, Diff(mi, c)), Det(mi)>>
    /\ pc' = "dot"
    /\ UNCHANGED <<mi, kinds, c, shape2, scale, sq2, zs, prop, fol, ok, img, accf, amb>>

GammaParams ==
    /\ pc = "dot"
    /\ shape2' = GammaShape2(mi)
    /\ scale' = GammaScale(mi, Diff(mi, c))
    /\ pc' = "params"
    /\ UNCHANGED <<mi, kinds, c, qf, sq2, zs, prop, fol, ok, img, accf, amb>>

DrawS ==
    /\ pc = "params"
    /\ sq2' \in SqS
    /\ pc' = "scaled"
    /\ UNCHANGED <<mi, kinds, c, qf, shape2, scale, zs, prop, fol, ok, img, accf, amb>>

Propose(z) ==
    /\ zs' = Append(zs, z)
    /\ prop' = Map(mi, c, sq2, z)
    /\ fol' = FoldVec(kinds, prop', 2 * M * PD)
    /\ ok' = InBounds(kinds, fol', 2 * M * PD)
    /\ pc' = IF ok' THEN "done" ELSE "outside"
    /\ amb' = (amb \/ \E i \in DOMAIN prop' : prop'[i] % (2 * M * PD) = 0)   \* exactly on a wall / fold point: double
                                                                          \* rounding may decide either way, not replayed
    /\ UNCHANGED <<mi, kinds, c, qf, shape2, scale, sq2, img, accf>>

Draw == pc = "scaled" /\ \E z \in [1..Dm(mi) -> Zs] : Propose(z)

\* code-shaped: the innovation is redrawn with the SAME scale s until the proposal is inside
Impl_Redraw == pc = "outside" /\ Len(zs) < MaxDraws /\ \E z \in [1..Dm(mi) -> Zs] : Propose(z)

\* image tables for one folded coordinate (the other, if any, hard); only where r = R2/2 is an integer
ImgShift(kind, n2, axis, k, which) ==
    \* periodic: n2 + k*2M on the axis;  reflective: which = 0: n2 + 2k*2M ; which = 1: reflected image -c' - m + 2k*2M
    [i \in DOMAIN n2 |->
        IF i # axis THEN n2[i]
        ELSE IF kind = "periodic" THEN n2[i] + k * 2 * M
        ELSE IF which = 0 THEN n2[i] + 2 * k * 2 * M
        ELSE -(n2[i] + Mu(mi)[i]) - Mu(mi)[i] + 2 * k * 2 * M]

Foldable == /\ Variant = "intended" /\ R2(mi) % 2 = 0 /\ Nu(mi) <= 8      \* the harness raises T to the power r exactly
            /\ Cardinality({i \in DOMAIN kinds : kinds[i] # "hard"}) = 1

Images ==
    /\ pc = "start" /\ Foldable /\ KImg > 0
    /\ LET axis == CHOOSE i \in DOMAIN kinds : kinds[i] # "hard"
           kind == kinds[axis]
           n == Diff(mi, c)
           cubeSeq == [j \in 1..Cardinality(Cube(Dm(mi))) |->
                         [i \in 1..Dm(mi) |-> 2 * (((j - 1) \div (IF i = 1 THEN 1 ELSE M)) % M) + 1]]
           ks == [j \in 1..(2 * KImg + 1) |-> j - KImg - 1]
           whichs == IF kind = "periodic" THEN <<0>> ELSE <<0, 1>>
       IN  img' = [j \in DOMAIN cubeSeq |->
                     LET n2 == Diff(mi, cubeSeq[j]) IN
                     << cubeSeq[j],
                        [w \in DOMAIN whichs |-> [q \in DOMAIN ks |-> TN(mi, n, ImgShift(kind, n2, axis, ks[q], whichs[w]))]],
                        [w \in DOMAIN whichs |-> [q \in DOMAIN ks |-> TN(mi, n2, ImgShift(kind, n, axis, ks[q], whichs[w]))]] >>]
    /\ pc' = "images"
    /\ UNCHANGED <<mi, kinds, c, qf, shape2, scale, sq2, zs, prop, fol, ok, accf, amb>>

\* _compute_acceptance_factor for the pairs (u, every lattice u'): << u', G(u') num, G(u) num, twice the exponent >>
CubeSeq(d) == [j \in 1..Cardinality(Cube(d)) |-> [i \in 1..d |-> 2 * (((j - 1) \div (IF i = 1 THEN 1 ELSE M)) % M) + 1]]
Factor ==
    /\ pc = "start" /\ kinds = [i \in 1..Dm(mi) |-> "hard"]
    /\ accf' = [j \in DOMAIN CubeSeq(Dm(mi)) |->
                  <<CubeSeq(Dm(mi))[j]>> \o AccFactor(mi, Diff(mi, c), Diff(mi, CubeSeq(Dm(mi))[j]))]
    /\ pc' = "factor"
    /\ UNCHANGED <<mi, kinds, c, qf, shape2, scale, sq2, zs, prop, fol, ok, img, amb>>

Next == Dot \/ GammaParams \/ DrawS \/ Draw \/ Impl_Redraw \/ Images \/ Factor

Spec == Init /\ [][Next]_vars

-----------------------------------------------------------------------------
(* Properties (C03 b) *)

TypeOK ==
    /\ pc \in {"start", "dot", "params", "scaled", "outside", "done", "images", "factor"}
    /\ c \in Cube(Dm(mi))
    /\ Det(mi) > 0
    /\ Nu(mi) >= 1                                 \* any positive integer nu: the exponents (nu + d)/2, (nu + 2d)/2 are only
                                                   \* carried formally (twice the exponent is an integer), never evaluated
    /\ (PD * CA) % CB = 0

\* exp(AccFactor(u,u')) * q(u->u') / q(u'->u) = 1 for every lattice pair
Reversible ==
    pc = "start" => \A c2 \in Cube(Dm(mi)) : IdentityHolds(mi, Diff(mi, c), Diff(mi, c2))

\* the polynomial identity  Delta(u) + Q(u,u') = Delta(u') + Q(u',u)
PolynomialIdentity ==
    pc = "start" => \A c2 \in Cube(Dm(mi)) :
        TN(mi, Diff(mi, c), Diff(mi, c2)) = TN(mi, Diff(mi, c2), Diff(mi, c))

\* the inverse-gamma mixture has the shape / rate that make the marginal a Student-t with nu + d dof
MixtureParams ==
    pc \in {"params", "scaled", "outside", "done"} =>
        /\ shape2 = Dm(mi) + Nu(mi)
        /\ scale[1] * GammaRate(mi, Diff(mi, c))[1] = scale[2] * GammaRate(mi, Diff(mi, c))[2]   \* scale = 1/rate
        /\ scale[1] = 2 * qf[2] /\ scale[2] = Nu(mi) * qf[2] + qf[1]                              \* 2/(nu + dot)

\* the correction is the ratio of the Student-t(nu) reference densities: exponent (nu + d)/2, sign as stated
FactorShape ==
    pc = "factor" => \A j \in DOMAIN accf :
        /\ accf[j][4] = Dm(mi) + Nu(mi)
        /\ accf[j][2] = GN(mi, Diff(mi, accf[j][1])) /\ accf[j][3] = GN(mi, Diff(mi, c))
        /\ (accf[j][1] = c => accf[j][2] = accf[j][3])

\* a returned proposal is inside the cube on the strictly-checked coordinates, folded ones in [0,1]
ReturnedInside ==
    pc = "done" => \A i \in DOMAIN fol : 0 <= fol[i] /\ fol[i] <= 2 * M * PD

\* the principal image is the k = 0 entry of the image table and equals the unfolded T both ways
ImagesPrincipal ==
    pc = "images" => \A j \in DOMAIN img :
        /\ img[j][2][1][KImg + 1] = TN(mi, Diff(mi, c), Diff(mi, img[j][1]))
        /\ img[j][3][1][KImg + 1] = TN(mi, Diff(mi, img[j][1]), Diff(mi, c))
        /\ img[j][2][1][KImg + 1] = img[j][3][1][KImg + 1]

=============================================================================
