------------------------------- MODULE PSRun -------------------------------
(***************************************************************************)
(* System specification of a tempest Persistent-Sampling run               *)
(* (tempest/core.py SamplerCore.run_sampling / execute_iteration and the   *)
(* four pipeline steps).                                                    *)
(*                                                                          *)
(* Grain: one action per step boundary of the code                          *)
(*   InitFresh | Resume -> ( [Save] Reweight -> Train -> Resample ->        *)
(*   MutatePrior | (MutateBegin -> Sweep+ -> MutateEnd) -> Commit )* ->     *)
(*   Terminate -> Posterior*                                                *)
(*                                                                          *)
(* Encodings (DESIGN.md section 3): floats appear as order ranks (beta, ESS) *)
(* or content tags (evidence, weights); a particle is a record of four      *)
(* provenance ids [u, x, l, b]: the id of the unit-cube point, of the point  *)
(* whose prior transform gave x, of the point whose likelihood call gave    *)
(* logl, and likewise for the blob.  A coherent record has four equal,      *)
(* non-zero ids.                                                            *)
(*                                                                          *)
(* Every action is the conjunction of NAMED clauses (operators XX_Name)     *)
(* and of the state update.  The model-checking Next uses the conjunction;  *)
(* PSRunTrace.tla evaluates each clause separately on recorded events so    *)
(* that a rejected event names the failing clause (and, through the clause   *)
(* -> property table in vlib/psrun.py, the violated property).              *)
(***************************************************************************)
EXTENDS Integers, Sequences, FiniteSets, TLC

VARIABLES
    pc,      \* "ctor" | "ready" | "reweighted" | "trained" | "resampled" | "mutating" | "mutated" | "done" | "dead" (process died)
    cfg,     \* configuration record (constant during a behaviour), see CfgOK
    iter,    \* iteration counter (state key "iter")
    beta,    \* inverse temperature as an order rank / grid point; 0 is beta = 0.0, cfg.one is beta = 1.0
    ess,     \* recorded ESS (rank in the ESS order; cfg.target is the rank of the ESS target)
    logz,    \* recorded log-evidence (content tag)
    wts,     \* content tag of the normalised weights handed to Train and Resample
    calls,   \* reported number of likelihood calls (state key "calls")
    evals,   \* ghost: number of points at which the user's likelihood actually ran
    cur,     \* active slots: Seq([rec : Rec, lab : Nat, fin : BOOLEAN])
    hist,    \* committed batches: Seq([iter, beta, parts : Seq(Rec)])
    clus,    \* shared clusterer: [fitted : BOOLEAN, K : Nat]
    modes,   \* proposal modes handed Trainer -> Mutator: Seq(label the mode was fitted from); -1 = mixed/unknown
    nsw      \* number of sweeps done in the current mutation

vars == <<pc, cfg, iter, beta, ess, logz, wts, calls, evals, cur, hist, clus, modes, nsw>>

-----------------------------------------------------------------------------
(* Records *)

Rec(id) == [u |-> id, x |-> id, l |-> id, b |-> id]
Coherent(r) == r.u # 0 /\ r.x = r.u /\ r.l = r.u /\ r.b = r.u
NoRec == Rec(0)

Slot(r, lab, fin) == [rec |-> r, lab |-> lab, fin |-> fin]

RecsOf(batch) == {batch.parts[i] : i \in DOMAIN batch.parts}
Pool == UNION {RecsOf(hist[t]) : t \in DOMAIN hist}
PoolSize == LET RECURSIVE S(_)
                S(t) == IF t = 0 THEN 0 ELSE Len(hist[t].parts) + S(t - 1)
            IN S(Len(hist))

Range(f) == {f[i] : i \in DOMAIN f}

-----------------------------------------------------------------------------
(* Named clauses.  Arguments are the observations of one step (in the model  *)
(* checking configuration they are chosen nondeterministically from small    *)
(* sets; in trace validation they are read from the recorded event).         *)

\* ---- InitFresh
IF_Zero(o) == o.iter = 0 /\ o.beta = 0 /\ o.calls = 0
\* documented behaviour beyond the listed properties: a fresh run() starts from an empty history.  It does NOT hold for a
\* second run() on a sampler that has already run (action RunAgain below): the pinned code resets the counters only.
IF_EmptyHistory(o) == o.histLen = 0
\* documented behaviour beyond the listed properties (pinned code, action RunAgain): a run() started on a state container that already
\* holds committed batches (prevHistLen of them when its last commit was observed) does not start with fewer.  C17's append-only clause is
\* about iterations; a fresh run() that re-initialised the container would be a legitimate design too - a deviation, not a violation
IF_HistoryKept(o) == o.histLen >= o.prevHistLen

\* ---- Reweight.  o = [first, beta, ess, logz, wts,              (recorded)
\*                      essAt, logzAt, wtsAt, refAgrees,           (recomputed at the recorded beta from the pre-step pool)
\*                      limit, essAtLimit]                         (volume mode: the ESS-limited temperature)
RW_Iter(o)       == o.iter = iter + 1
RW_FirstZero(o)  == (hist = <<>>) => o.beta = 0
RW_Monotone(o)   == o.beta >= beta
RW_Bounded(o)    == o.beta <= cfg.one /\ o.beta >= 0
RW_AdvanceESS(o) == (cfg.metric = "ess" /\ hist # <<>> /\ o.beta > beta) => o.essAt >= cfg.target
RW_Limit(o)      == (cfg.metric = "vv" /\ hist # <<>>) =>
                        /\ o.beta <= o.limit
                        /\ (o.limit > beta => o.essAtLimit >= cfg.target)
RW_SameBeta(o)   == (hist # <<>>) => (o.ess = o.essAt /\ o.logz = o.logzAt /\ o.wts = o.wtsAt)
RW_RefAgrees(o)  == o.refAgrees

\* ---- Train.  o = [branch, fitted, K, modes, modesOK, wtsOut]
\* wtsOut: content tag of the weight vector as it leaves the training step, i.e. as resampling receives it (the same array object
\* is handed from reweighting to training to resampling): still the weights of the recorded temperature
TR_WeightsIntact(o) == o.wtsOut = wts
\* modelStable: the clusterer labels the training particles at the end of the training step exactly as it did when the modes were
\* built from them (the resampling step labels the active particles with the model as it is THEN)
TR_ModelStable(o) == o.modelStable
TR_Skip(o)          == (o.branch = "Skip") <=> (beta = 0)
TR_Branch(o)        == beta > 0 => (IF cfg.clustering THEN o.branch \in {"Fit", "PredictOnly"} ELSE o.branch = "Global")
TR_PredictFitted(o) == o.branch = "PredictOnly" => clus.fitted
TR_Cadence(o)       == (beta > 0 /\ cfg.clustering /\ iter % cfg.clusterEvery = 0) => o.branch = "Fit"
TR_FitSets(o)       == o.branch = "Fit" => (o.fitted /\ o.K >= 1)
TR_Cap(o)           == (o.fitted /\ cfg.cap > 0) => o.K <= cfg.cap
TR_ModesOK(o)       == o.modesOK
TR_ModesExist(o)    == beta > 0 => Len(o.modes) >= 1

\* ---- Resample.  o = [slots]
RS_Skip(o)        == beta = 0 => TRUE
RS_WholeCopies(o) == beta > 0 => \A i \in DOMAIN o.slots : o.slots[i].rec \in Pool
RS_Count(o)       == beta > 0 => Len(o.slots) = cfg.np
RS_LabelRange(o)  == beta > 0 => \A i \in DOMAIN o.slots :
                        IF cfg.clustering THEN o.slots[i].lab >= 0 /\ o.slots[i].lab < clus.K
                                          ELSE o.slots[i].lab = 0

\* every active particle carries the label that the model which produced the proposal modes assigns to that particle
RS_LabelsFromModel(o) == beta > 0 => o.labelsFromModel

\* ---- MutatePrior.  o = [slots, dEvals, calls, nInf, zInHull]
MP_Count(o)    == Len(o.slots) = cfg.np
MP_Coherent(o) == \A i \in DOMAIN o.slots : Coherent(o.slots[i].rec)
MP_NoInf(o)    == \A i \in DOMAIN o.slots : o.slots[i].fin
MP_Calls(o)    == o.calls = calls + o.dEvals
MP_Evals(o)    == o.dEvals = cfg.np
MP_LogzHull(o) == o.zInHull

\* a mode with this code was fitted from ALL training particles because its cluster attracted none of them
FallbackMode == -2

\* ---- MutateBegin (arguments reaching the MCMC kernel).  o = [slots, modes, modesOK]
MB_SameSlots(o) == o.slots = cur
MB_Labels(o)    == \A i \in DOMAIN o.slots :
                      /\ o.slots[i].lab >= 0
                      /\ o.slots[i].lab < Len(o.modes)
                      /\ o.modes[o.slots[i].lab + 1] \in {o.slots[i].lab, FallbackMode}
MB_ModesOK(o)   == o.modesOK
\* the kernel is told exactly the boundary designation the sampler was configured with
MB_Boundaries(o) == o.periodic = cfg.periodic /\ o.reflective = cfg.reflective

\* ---- Sweep.  o = [mask, prop, slots, dEvals]
SweepPost(mask, prop) ==
    [i \in DOMAIN cur |-> IF mask[i] THEN Slot(prop[i], cur[i].lab, TRUE) ELSE cur[i]]
SW_PropCoherent(o) == \A i \in DOMAIN o.prop : Coherent(o.prop[i])
SW_Update(o)       == /\ Len(o.slots) = Len(cur) /\ Len(o.mask) = Len(cur) /\ Len(o.prop) = Len(cur)
                      /\ o.slots = SweepPost(o.mask, o.prop)
\* the kernel applied to a walker is the one of the label it ENTERED the mutation step with: labels do not change during a call
SW_LabelsFixed(o)  == Len(o.slots) = Len(cur) => \A i \in DOMAIN cur : o.slots[i].lab = cur[i].lab
SW_Evals(o)        == o.dEvals = cfg.np
\* documented behaviour beyond the listed properties: step sizes stay finite (tpCN: within [0, min(2.38/sqrt(d), 0.99)])
SW_SigmaBounds(o)  == o.sigmaOK

\* ---- MutateEnd.  o = [slots, calls, dEvals]   (dEvals: evaluations since MutateBegin)
ME_Slots(o) == o.slots = cur
ME_Calls(o) == o.calls = calls + o.dEvals
ME_Swept(o) == nsw >= 1
\* documented behaviour beyond the listed properties: the kernel reports the number of sweeps it made, and that number
\* lies between n_steps * n_dim and n_max_steps * n_dim (adaptive step count)
ME_Steps(o)       == o.steps = nsw
ME_SweepBounds(o) == nsw >= cfg.minSweeps /\ nsw <= cfg.maxSweeps

\* ---- Commit.  o = [batch, histLen, keyLens, prefixSame]
CM_Append(o)     == o.histLen = Len(hist) + 1 /\ o.batch = [i \in DOMAIN cur |-> cur[i].rec]
CM_OnePerKey(o)  == \A k \in DOMAIN o.keyLens : o.keyLens[k] = Len(hist) + 1
CM_PrefixSame(o) == o.prefixSame
CM_Coherent(o)   == \A i \in DOMAIN o.batch : Coherent(o.batch[i])
CM_NoInf(o)      == \A i \in DOMAIN cur : cur[i].fin
\* the blobs visible in the current state (returned by sample()) are absent or belong to these particles
CM_BlobsVisible(o) == o.blobsOK
\* the temperature, evidence, ESS and counters recorded in the history for this iteration are the current ones
CM_ScalarsRecorded(o) == o.scalarsOK

\* ---- Terminate.  o = [nearOne, essPost, evid, evidAt]
TM_NearOne(o)  == o.nearOne
TM_ESS(o)      == o.essPost >= cfg.nTotal
TM_Evidence(o) == o.evid = o.evidAt
\* the number of calls reported when run() returns = calls reported when it was entered + the points at which the user's likelihood
\* was evaluated in between (also outside the pipeline steps: while resuming, after the last commit)
TM_CallsExact(o) == o.callsReported = o.callsSeen
\* committed history is append-only: what run() leaves behind is, batch by batch and quantity by quantity, what the commits stored
TM_HistoryUntouched(o) == o.histSame

-----------------------------------------------------------------------------
(* Clause tables: the named clauses of each action as a record of booleans   *)
(* (single source for the model-checking actions and for trace validation).  *)

RW_Clauses(o) == [RW_Iter |-> RW_Iter(o), RW_FirstZero |-> RW_FirstZero(o), RW_Monotone |-> RW_Monotone(o),
                  RW_Bounded |-> RW_Bounded(o), RW_AdvanceESS |-> RW_AdvanceESS(o), RW_Limit |-> RW_Limit(o),
                  RW_SameBeta |-> RW_SameBeta(o), RW_RefAgrees |-> RW_RefAgrees(o)]
TR_Clauses(o) == [TR_Skip |-> TR_Skip(o), TR_Branch |-> TR_Branch(o), TR_PredictFitted |-> TR_PredictFitted(o),
                  TR_Cadence |-> TR_Cadence(o), TR_FitSets |-> TR_FitSets(o), TR_Cap |-> TR_Cap(o),
                  TR_ModesOK |-> TR_ModesOK(o), TR_ModesExist |-> TR_ModesExist(o), TR_WeightsIntact |-> TR_WeightsIntact(o), TR_ModelStable |-> TR_ModelStable(o)]
RS_Clauses(o) == [RS_WholeCopies |-> RS_WholeCopies(o), RS_Count |-> RS_Count(o), RS_LabelRange |-> RS_LabelRange(o),
                  RS_LabelsFromModel |-> RS_LabelsFromModel(o)]
MP_Clauses(o) == [MP_Count |-> MP_Count(o), MP_Coherent |-> MP_Coherent(o), MP_NoInf |-> MP_NoInf(o),
                  MP_Calls |-> MP_Calls(o), MP_Evals |-> MP_Evals(o), MP_LogzHull |-> MP_LogzHull(o)]
MB_Clauses(o) == [MB_SameSlots |-> MB_SameSlots(o), MB_Labels |-> MB_Labels(o), MB_ModesOK |-> MB_ModesOK(o),
                  MB_Boundaries |-> MB_Boundaries(o)]
SW_Clauses(o) == [SW_PropCoherent |-> SW_PropCoherent(o), SW_Update |-> SW_Update(o), SW_LabelsFixed |-> SW_LabelsFixed(o), SW_Evals |-> SW_Evals(o),
                  SW_SigmaBounds |-> SW_SigmaBounds(o)]
ME_Clauses(o) == [ME_Slots |-> ME_Slots(o), ME_Calls |-> ME_Calls(o), ME_Swept |-> ME_Swept(o),
                  ME_Steps |-> ME_Steps(o), ME_SweepBounds |-> ME_SweepBounds(o)]
CM_Clauses(o) == [CM_Append |-> CM_Append(o), CM_OnePerKey |-> CM_OnePerKey(o), CM_PrefixSame |-> CM_PrefixSame(o),
                  CM_Coherent |-> CM_Coherent(o), CM_NoInf |-> CM_NoInf(o), CM_BlobsVisible |-> CM_BlobsVisible(o), CM_ScalarsRecorded |-> CM_ScalarsRecorded(o),
                  CallsExact |-> calls = evals]
TM_Clauses(o) == [TM_NearOne |-> TM_NearOne(o), TM_ESS |-> TM_ESS(o), TM_Evidence |-> TM_Evidence(o), TM_CallsExact |-> TM_CallsExact(o), TM_HistoryUntouched |-> TM_HistoryUntouched(o)]

All(c) == \A n \in DOMAIN c : c[n]
Failing(c) == {n \in DOMAIN c : ~c[n]}

-----------------------------------------------------------------------------
(* Actions.  XxxU is the state update of a step given its observation; Xxx   *)
(* is the intended action: all clauses hold and the update is taken.         *)

CfgOK == /\ cfg.np \in Nat \ {0}
         /\ cfg.metric \in {"ess", "vv"}
         /\ cfg.clustering \in BOOLEAN
         /\ cfg.clusterEvery \in Nat \ {0}

InitFresh ==
    /\ pc = "ctor"
    /\ pc' = "ready"
    /\ iter' = 0 /\ beta' = 0 /\ calls' = 0 /\ hist' = <<>>
    /\ ess' = 0 /\ logz' = 0 /\ wts' = 0
    /\ cur' = <<>> /\ modes' = <<>> /\ nsw' = 0
    /\ UNCHANGED <<cfg, evals, clus>>

\* run(n_total) called AGAIN, without resume_state_path, on a sampler whose run() has returned: _initialize_fresh resets
\* iter / beta / calls / logz but keeps the committed history, the fitted clusterer and the current particles, so the
\* "new" run reweights the old persistent pool from beta = 0 (typically straight to 1) and appends to the old history.
\* Within that run C05's clauses hold (the temperature starts at 0, never decreases); ACROSS the two runs the recorded
\* temperatures are not monotone and `calls` restarts.  Named deviation: bound by the trace specification (a RunBegin
\* with resumed = FALSE and a non-empty history fails only IF_EmptyHistory), not part of the bounded model's Next.
RunAgain ==
    /\ pc = "done"
    /\ pc' = "ready"
    /\ iter' = 0 /\ beta' = 0 /\ calls' = 0 /\ logz' = 0
    /\ UNCHANGED <<cfg, hist, evals, clus, ess, wts, cur, modes, nsw>>

\* the loop test of run_sampling: continue unless at beta = 1 with enough posterior ESS
Continue(enough) == ~(beta = cfg.one /\ enough /\ hist # <<>>)

ReweightU(o) ==
    /\ iter' = o.iter /\ beta' = o.beta /\ ess' = o.ess /\ logz' = o.logz /\ wts' = o.wts
    /\ pc' = "reweighted"
    /\ UNCHANGED <<cfg, calls, evals, cur, hist, clus, modes, nsw>>
Reweight(o) == pc = "ready" /\ All(RW_Clauses(o)) /\ ReweightU(o)

TrainU(o) ==
    /\ clus' = IF o.branch = "Fit" THEN [fitted |-> o.fitted, K |-> o.K] ELSE clus
    /\ modes' = o.modes
    /\ pc' = "trained"
    /\ UNCHANGED <<cfg, iter, beta, ess, logz, wts, calls, evals, cur, hist, nsw>>
Train(o) == pc = "reweighted" /\ All(TR_Clauses(o)) /\ TrainU(o)

ResampleU(o) ==
    /\ cur' = IF beta = 0 THEN cur ELSE o.slots
    /\ pc' = "resampled"
    /\ UNCHANGED <<cfg, iter, beta, ess, logz, wts, calls, evals, hist, clus, modes, nsw>>
Resample(o) == pc = "trained" /\ All(RS_Clauses(o)) /\ ResampleU(o)

MutatePriorU(o) ==
    /\ cur' = o.slots
    /\ calls' = o.calls /\ evals' = evals + o.dEvals
    /\ logz' = o.logz
    /\ pc' = "mutated"
    /\ UNCHANGED <<cfg, iter, beta, ess, wts, hist, clus, modes, nsw>>
MutatePrior(o) == pc = "resampled" /\ beta = 0 /\ All(MP_Clauses(o)) /\ MutatePriorU(o)

MutateBeginU(o) ==
    /\ cur' = o.slots
    /\ pc' = "mutating" /\ nsw' = 0
    /\ UNCHANGED <<cfg, iter, beta, ess, logz, wts, calls, evals, hist, clus, modes>>
MutateBegin(o) == pc = "resampled" /\ beta > 0 /\ All(MB_Clauses(o)) /\ MutateBeginU(o)

SweepU(o) ==
    /\ cur' = o.slots
    /\ evals' = evals + o.dEvals
    /\ nsw' = nsw + 1
    /\ UNCHANGED <<pc, cfg, iter, beta, ess, logz, wts, calls, hist, clus, modes>>
Sweep(o) == pc = "mutating" /\ All(SW_Clauses(o)) /\ SweepU(o)

MutateEndU(o) ==
    /\ cur' = o.slots
    /\ calls' = o.calls
    /\ pc' = "mutated"
    /\ UNCHANGED <<cfg, iter, beta, ess, logz, wts, evals, hist, clus, modes, nsw>>
MutateEnd(o) == pc = "mutating" /\ All(ME_Clauses(o)) /\ MutateEndU(o)

CommitU(o) ==
    /\ hist' = Append(hist, [iter |-> iter, beta |-> beta, parts |-> o.batch])
    /\ pc' = "ready"
    /\ UNCHANGED <<cfg, iter, beta, ess, logz, wts, calls, evals, cur, clus, modes, nsw>>
Commit(o) == pc = "mutated" /\ All(CM_Clauses(o)) /\ CommitU(o)

TerminateU(o) ==
    /\ logz' = o.evid
    /\ pc' = "done"
    /\ UNCHANGED <<cfg, iter, beta, ess, wts, calls, evals, cur, hist, clus, modes, nsw>>
Terminate(o) == pc = "ready" /\ hist # <<>> /\ All(TM_Clauses(o)) /\ TerminateU(o)

\* ---- Checkpoints.  At this level a save is atomic (Checkpoint.tla refines it into IO steps and shows that a crash
\* leaves the old or the new snapshot); a resume happens in a freshly constructed sampler of a new process:
\* everything that was saved is restored exactly, the clusterer and the proposal modes are NOT part of a checkpoint.
Snap == [iter |-> iter, beta |-> beta, calls |-> calls, ess |-> ess, logz |-> logz, wts |-> wts, cur |-> cur, hist |-> hist]

ResumeU(s) ==
    /\ pc' = "ready"
    /\ iter' = s.iter /\ beta' = s.beta /\ calls' = s.calls /\ ess' = s.ess /\ logz' = s.logz /\ wts' = s.wts
    /\ cur' = s.cur /\ hist' = s.hist
    /\ evals' = s.calls                       \* ghost: the new process has evaluated nothing yet; counting continues from the restored value
    /\ clus' = [fitted |-> FALSE, K |-> 0] /\ modes' = <<>> /\ nsw' = 0
    /\ UNCHANGED cfg

\* code-shaped variant (pinned tree before 7a4bec0): the loaded dictionary is discarded, only the counters' defaults are set
ResumeNothingU(s) ==
    /\ pc' = "ready"
    /\ iter' = 0 /\ beta' = 0 /\ calls' = 0 /\ ess' = 0 /\ logz' = 0 /\ wts' = 0 /\ cur' = <<>> /\ hist' = <<>>
    /\ evals' = 0
    /\ clus' = [fitted |-> FALSE, K |-> 0] /\ modes' = <<>> /\ nsw' = 0
    /\ UNCHANGED cfg

-----------------------------------------------------------------------------
(* State invariants and action properties of the system (checked by TLC on  *)
(* the bounded model MC_PSRun and, through the clauses, on recorded traces). *)

\* C07: every stored particle is a coherent record (after a mutation and in the history)
HistCoherent == \A t \in DOMAIN hist : \A i \in DOMAIN hist[t].parts : Coherent(hist[t].parts[i])
CurCoherent  == pc \in {"mutating", "mutated"} => \A i \in DOMAIN cur : Coherent(cur[i].rec)

\* C05: the schedule recorded in the history is monotone and bounded
HistBetaMonotone == \A s, t \in DOMAIN hist : s <= t => hist[s].beta <= hist[t].beta
BetaBounded      == beta >= 0 /\ beta <= cfg.one
\* (a resume in a new process loads an earlier checkpoint: the only step that may go back)
BetaMonotoneStep == [][beta' >= beta \/ pc = "ctor" \/ pc = "dead"]_vars

\* C17: history is append-only, one batch per iteration
AppendOnlyStep == [][pc \notin {"ctor", "dead"} => (Len(hist') >= Len(hist) /\ SubSeq(hist', 1, Len(hist)) = hist)]_vars
OneBatchPerIteration == pc = "ready" => Len(hist) = iter
HistIters == \A t \in DOMAIN hist : hist[t].iter = t

\* C13: reported calls = actual evaluations at every step boundary outside a mutation
CallsExact == pc \in {"ready", "reweighted", "trained", "resampled", "mutated", "done"} => calls = evals

\* C14: when the kernel runs, every label refers to a mode fitted from that label
LabelsCoherent ==
    pc = "mutating" => \A i \in DOMAIN cur :
        cur[i].lab >= 0 /\ cur[i].lab < Len(modes) /\ modes[cur[i].lab + 1] \in {cur[i].lab, FallbackMode}

\* C11: no record with zero likelihood is active after a mutation
NoInfActive == pc = "mutated" => \A i \in DOMAIN cur : cur[i].fin

\* C12: postcondition of run()
PostDone == pc = "done" => beta = cfg.one

=============================================================================
