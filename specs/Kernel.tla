------------------------------- MODULE Kernel -------------------------------
(***************************************************************************)
(* C03 (a): one Metropolis sweep of one walker of tempest.mcmc.RWMRunner as *)
(* a finite Markov chain on the cell-centred lattice.                        *)
(*                                                                          *)
(*   coordinate value  u = c/(2M), c odd in 1..2M-1   (c = 2k+1, cell k)     *)
(*   increment         z cells  = 2z/(2M)             (z integer, |z| <= 2M) *)
(*   target            pi(u) = 2^(beta*e(u)), e an even integer table,       *)
(*                     beta = b/2, b in {1,2}  (beta = 0 never reaches the   *)
(*                     kernel)                                               *)
(*   proposal law      symmetric integer weights: size s has weight w for   *)
(*                     each of +s and -s; coordinates independent (the code  *)
(*                     multiplies a diagonal Cholesky factor by randn(d))    *)
(*   boundary          per coordinate hard | periodic | reflective; the maps *)
(*                     are Fold.tla's (resolution 2M)                        *)
(*                                                                          *)
(* The sweep is the action sequence of BaseMCMCRunner.run / _propose:       *)
(*   Propose(z) -> Fold -> Check -> (Redraw(z'))* -> Accept(r) | Reject(r)   *)
(* Two hard-wall rules:                                                      *)
(*   Rule = "intended": an out-of-cube proposal is a rejection (OutReject)   *)
(*   Rule = "impl"    : Impl_RedrawUntilInside - a FRESH increment is drawn  *)
(*                      from the current state until the proposal is inside  *)
(* From the same operators (FoldVec, InBounds, Pi) the module defines the    *)
(* exact transition weights P(u,v) = PNum/PDen (for "impl" the redraw loop   *)
(* is summed in closed form: the proposal is renormalised by the inside      *)
(* weight WIn(u)), and states detailed balance, row-stochasticity and        *)
(* never-leaves-the-cube as invariants.  A sweep of n walkers is the product *)
(* of n such transitions (proposals for walkers 0..n-1 consume randn in      *)
(* walker order, then ONE rand(n) call supplies the accept uniforms); the    *)
(* harness replays triples of enumerated transitions in one run() call.      *)
(*                                                                          *)
(* All state variables are integers, strings or nested sequences so that     *)
(* vlib.fastdump can read the dump.                                          *)
(***************************************************************************)
EXTENDS Integers, Sequences, FiniteSets, TLC

(* Boundary maps: copied verbatim from Fold.tla (C16 checks them against the code and against   *)
(* their definitions); FoldOpsAgree below re-checks the copies against the Fold module itself.  *)
Wrap(k, m) == k % m
Tri(k, m) == LET r == k % (2 * m) IN IF r <= m THEN r ELSE 2 * m - r
FoldCoord(kind, k, m) ==
    CASE kind = "hard"       -> k
      [] kind = "periodic"   -> Wrap(k, m)
      [] kind = "reflective" -> Tri(k, m)
FoldVec(ks, v, m) == [i \in DOMAIN v |-> FoldCoord(ks[i], v[i], m)]
InBounds(ks, v, m) == \A i \in DOMAIN v : ks[i] = "hard" => (0 <= v[i] /\ v[i] <= m)

Fd == INSTANCE Fold WITH Ms <- {1}, Span <- 1, Dims <- {1}, MaxRows <- 1, Span2 <- 1,
                         pc <- "in", M <- 1, kinds <- <<"hard">>, rows <- <<>>, out <- <<>>, ok <- <<>>

CONSTANTS Cases,     \* set of << M, d, alpha, e, steps >> : alpha = << <<z, weight>>, ... >> (signed increments),
                     \*   e = table (sequence of length M^d) or << >> meaning EVERY table over Levels,
                     \*   steps = 1: the sweep actions are enabled for this case, 0: weights only
          Levels,    \* values of the table e (even integers >= 0)
          Bs,        \* set of b, beta = b/2
          Rule,      \* "intended" | "impl"
          HardMode,  \* "any" | "none" (no hard coordinate) | "some" (at least one hard coordinate)
          MaxDraws   \* bound on the number of increments drawn in one proposal (redraw loop unrolled)

VARIABLES pc, M, kinds, alpha, e, b, steps, u, zs, prop, fol, ok, rc, acc, rec, row

vars == <<pc, M, kinds, alpha, e, b, steps, u, zs, prop, fol, ok, rc, acc, rec, row>>

Kinds == {"hard", "periodic", "reflective"}

-----------------------------------------------------------------------------
(* Lattice, target *)

D == Len(kinds)
Cells(m) == {c \in 1..(2 * m - 1) : c % 2 = 1}
Cube(m, d) == [1..d -> Cells(m)]

RECURSIVE Pow(_, _)
Pow(x, n) == IF n = 0 THEN 1 ELSE x * Pow(x, n - 1)

RECURSIVE IdxTo(_, _, _)
IdxTo(v, m, i) == IF i = 0 THEN 0 ELSE ((v[i] - 1) \div 2) * Pow(m, i - 1) + IdxTo(v, m, i - 1)
Idx(v, m) == 1 + IdxTo(v, m, Len(v))          \* linear index of a cell vector, first coordinate fastest

E(tab, v, m) == tab[Idx(v, m)]
Pi(tab, bb, v, m) == Pow(2, (bb * E(tab, v, m)) \div 2)      \* 2^(beta*e), an integer because e is even
MinPi(tab, bb, v, w, m) == IF Pi(tab, bb, v, m) <= Pi(tab, bb, w, m) THEN Pi(tab, bb, v, m) ELSE Pi(tab, bb, w, m)

-----------------------------------------------------------------------------
(* Proposal law *)
(* alpha = << <<z, w>>, ... >> : signed increment z (in cells) with integer weight w.  The law of one     *)
(* coordinate is w/W1Tot; coordinates are independent (diagonal Cholesky factor times randn(d)); fold and  *)
(* bounds check act coordinate-wise, so every weight below is a product over coordinates.                  *)

RECURSIVE SumF(_, _)
SumF(F(_), n) == IF n = 0 THEN 0 ELSE F(n) + SumF(F, n - 1)
RECURSIVE ProdF(_, _)
ProdF(F(_), n) == IF n = 0 THEN 1 ELSE F(n) * ProdF(F, n - 1)

Symmetric(al) == \A i \in DOMAIN al : \E j \in DOMAIN al : al[j][1] = -al[i][1] /\ al[j][2] = al[i][2] /\ al[i][2] > 0
Distinct(al) == \A i, j \in DOMAIN al : i # j => al[i][1] # al[j][1]
Incs(al, d) == [1..d -> {al[i][1] : i \in DOMAIN al}]

\* unfolded proposal, folded proposal, bounds check : exactly the code's three steps
Raw(v, z) == [i \in DOMAIN v |-> v[i] + 2 * z[i]]
Land(ks, v, z, m) == FoldVec(ks, Raw(v, z), 2 * m)
Inside(ks, v, z, m) == InBounds(ks, Land(ks, v, z, m), 2 * m)

\* one coordinate
In1(kind, k, m) == kind = "hard" => (0 <= k /\ k <= 2 * m)
W1Tot(al) == SumF(LAMBDA i : al[i][2], Len(al))
W1In(kind, al, c, m) == SumF(LAMBDA i : IF In1(kind, FoldCoord(kind, c + 2 * al[i][1], 2 * m), m) THEN al[i][2] ELSE 0, Len(al))
Q1(kind, al, c, cw, m) ==
    SumF(LAMBDA i : LET k == FoldCoord(kind, c + 2 * al[i][1], 2 * m)
                    IN  IF In1(kind, k, m) /\ k = cw THEN al[i][2] ELSE 0, Len(al))

WTot(al, d) == ProdF(LAMBDA j : W1Tot(al), d)
WIn(ks, al, v, m) == ProdF(LAMBDA j : W1In(ks[j], al, v[j], m), Len(v))
QNum(ks, al, v, w, m) == ProdF(LAMBDA j : Q1(ks[j], al, v[j], w[j], m), Len(v))

\* the same weights by brute-force enumeration of increment vectors (definition; checked equal in Factorised)
QNumDef(ks, al, v, w, m) ==
    LET S == {z \in Incs(al, Len(v)) : Inside(ks, v, z, m) /\ Land(ks, v, z, m) = w}
        WtOf(z) == ProdF(LAMBDA j : (CHOOSE a \in {al[i] : i \in DOMAIN al} : a[1] = z[j])[2], Len(v))
        RECURSIVE Tot(_)
        Tot(T) == IF T = {} THEN 0 ELSE LET z == CHOOSE z \in T : TRUE IN WtOf(z) + Tot(T \ {z})
    IN  Tot(S)

\* normalisation of the proposal actually made from v:
\*   intended: one draw, total weight (out-of-cube mass stays at v)
\*   impl    : redraw until inside = the one-draw law conditioned on being inside
Norm(rule, ks, al, v, m) == IF rule = "impl" THEN WIn(ks, al, v, m) ELSE WTot(al, Len(v))

-----------------------------------------------------------------------------
(* Exact transition weights  P(v,w) = PNum(v,w) / PDen(v) *)

CellAt(i, m, d) == [j \in 1..d |-> 2 * (((i - 1) \div Pow(m, j - 1)) % m) + 1]

PDen(rule, ks, al, tab, bb, v, m) == Norm(rule, ks, al, v, m) * Pi(tab, bb, v, m)

\* move v -> w (w # v): proposed with weight QNum, accepted with probability min(1, pi(w)/pi(v))
MoveNum(ks, al, tab, bb, v, w, m) == QNum(ks, al, v, w, m) * MinPi(tab, bb, v, w, m)

\* staying at v: proposing v itself, any rejected inside proposal, and (intended rule) the out-of-cube mass
StayNum(rule, ks, al, tab, bb, v, m) ==
      QNum(ks, al, v, v, m) * Pi(tab, bb, v, m)
    + SumF(LAMBDA i : LET w == CellAt(i, m, Len(v))
                      IN  IF w = v THEN 0
                          ELSE QNum(ks, al, v, w, m) * (Pi(tab, bb, v, m) - MinPi(tab, bb, v, w, m)),
           Pow(m, Len(v)))
    + (IF rule = "impl" THEN 0 ELSE (WTot(al, Len(v)) - WIn(ks, al, v, m)) * Pi(tab, bb, v, m))

PNum(rule, ks, al, tab, bb, v, w, m) ==
    IF w = v THEN StayNum(rule, ks, al, tab, bb, v, m) ELSE MoveNum(ks, al, tab, bb, v, w, m)

\* the row of P at v in Idx order : << den, << num_1, ..., num_(M^d) >> >>
RowOf(rule, ks, al, tab, bb, v, m) ==
    << PDen(rule, ks, al, tab, bb, v, m),
       [i \in 1..Pow(m, Len(v)) |-> PNum(rule, ks, al, tab, bb, v, CellAt(i, m, Len(v)), m)] >>

-----------------------------------------------------------------------------
(* The sweep of one walker *)

RClasses == {"zero", "low", "high", "top"}
   \* the accept uniform r:  "zero" r = 0;  "low" an interior point of (0, alpha);
   \*                        "high" an interior point of (alpha, 1) - exists only if alpha < 1;
   \*                        "top"  the largest value rand() can return (r < 1)

HardOK(ks) == CASE HardMode = "any"  -> TRUE
                [] HardMode = "none" -> \A i \in DOMAIN ks : ks[i] # "hard"
                [] HardMode = "some" -> \E i \in DOMAIN ks : ks[i] = "hard"

Init ==
    /\ pc = "init"
    /\ \E c \in Cases :
         /\ M = c[1]
         /\ alpha = c[3]
         /\ steps = c[5]
         /\ kinds \in [1..c[2] -> Kinds]
         /\ HardOK(kinds)
         /\ e \in (IF c[4] = <<>> THEN [1..Pow(c[1], c[2]) -> Levels] ELSE {c[4]})
         /\ u \in Cube(c[1], c[2])
    /\ b \in Bs
    /\ zs = <<>> /\ prop = <<>> /\ fol = <<>> /\ ok = FALSE /\ rc = "none" /\ acc = FALSE /\ rec = <<>>
    /\ row = <<>>

\* not a step of the code: tabulate the row of P at u (done in an action so that TLC's workers share the
\* evaluation of the weight invariants, which are all stated at pc = "start")
Weights ==
    /\ pc = "init"
    /\ row' = RowOf(Rule, kinds, alpha, e, b, u, M)
    /\ pc' = "start"
    /\ UNCHANGED <<M, kinds, alpha, e, b, steps, u, zs, prop, fol, ok, rc, acc, rec>>

\* proposal = u + sigma * chol @ randn  (first draw)
Propose(z) ==
    /\ pc = "start" /\ steps = 1 /\ MaxDraws >= 1
    /\ zs' = <<z>>
    /\ prop' = Raw(u, z)
    /\ pc' = "proposed"
    /\ row' = <<>>
    /\ UNCHANGED <<M, kinds, alpha, e, b, steps, u, fol, ok, rc, acc, rec>>

\* apply_boundary_conditions
Fold ==
    /\ pc = "proposed"
    /\ fol' = FoldVec(kinds, prop, 2 * M)
    /\ pc' = "folded"
    /\ UNCHANGED <<M, kinds, alpha, e, b, steps, u, zs, prop, ok, rc, acc, rec, row>>

\* check_bounds
Check ==
    /\ pc = "folded"
    /\ ok' = InBounds(kinds, fol, 2 * M)
    /\ pc' = "checked"
    /\ UNCHANGED <<M, kinds, alpha, e, b, steps, u, zs, prop, fol, rc, acc, rec, row>>

\* code-shaped hard-wall rule: `while True:` draws a fresh increment from the CURRENT state
Impl_RedrawUntilInside(z) ==
    /\ pc = "checked" /\ ~ok /\ Rule = "impl"
    /\ Len(zs) < MaxDraws
    /\ zs' = Append(zs, z)
    /\ prop' = Raw(u, z)
    /\ pc' = "proposed"
    /\ UNCHANGED <<M, kinds, alpha, e, b, steps, u, fol, ok, rc, acc, rec, row>>

RecordOf(v) == <<v, E(e, v, M), Idx(v, M)>>     \* (u = x, logl table value, blob tag) move together

\* intended hard-wall rule: the out-of-cube proposal is rejected whatever the accept uniform is,
\* and the likelihood is not needed
OutReject(r) ==
    /\ pc = "checked" /\ ~ok /\ Rule = "intended"
    /\ r \in {"zero", "low", "top"}
    /\ rc' = r /\ acc' = FALSE
    /\ rec' = RecordOf(u)
    /\ pc' = "done"
    /\ UNCHANGED <<M, kinds, alpha, e, b, steps, u, zs, prop, fol, ok, row>>

\* alpha = min(1, exp(beta*(logl' - logl)));  mask = r < alpha
Accepts(r, v) ==
    \/ r \in {"zero", "low"}                               \* 0 < alpha always
    \/ r = "top" /\ Pi(e, b, v, M) >= Pi(e, b, u, M)       \* alpha = 1

Accept(r) ==
    /\ pc = "checked" /\ ok
    /\ r \in RClasses /\ (r = "high" => Pi(e, b, fol, M) < Pi(e, b, u, M))
    /\ Accepts(r, fol)
    /\ rc' = r /\ acc' = TRUE
    /\ rec' = RecordOf(fol)
    /\ pc' = "done"
    /\ UNCHANGED <<M, kinds, alpha, e, b, steps, u, zs, prop, fol, ok, row>>

Reject(r) ==
    /\ pc = "checked" /\ ok
    /\ r \in RClasses /\ (r = "high" => Pi(e, b, fol, M) < Pi(e, b, u, M))
    /\ ~Accepts(r, fol)
    /\ rc' = r /\ acc' = FALSE
    /\ rec' = RecordOf(u)
    /\ pc' = "done"
    /\ UNCHANGED <<M, kinds, alpha, e, b, steps, u, zs, prop, fol, ok, row>>

Next ==
    \/ Weights
    \/ \E z \in Incs(alpha, D) : Propose(z)
    \/ Fold
    \/ Check
    \/ \E z \in Incs(alpha, D) : Impl_RedrawUntilInside(z)
    \/ \E r \in RClasses : OutReject(r) \/ Accept(r) \/ Reject(r)

Spec == Init /\ [][Next]_vars

-----------------------------------------------------------------------------
(* Properties (C03 a) *)

TypeOK ==
    /\ pc \in {"init", "start", "proposed", "folded", "checked", "done"}
    /\ u \in Cube(M, D)
    /\ b \in Bs
    /\ Rule \in {"intended", "impl"}
    /\ Symmetric(alpha) /\ Distinct(alpha)

\* the copied boundary operators are Fold.tla's
FoldOpsAgree ==
    pc = "start" => \A k \in (-6 * M)..(6 * M) : \A kind \in Kinds :
        /\ FoldCoord(kind, k, 2 * M) = Fd!FoldCoord(kind, k, 2 * M)
        /\ InBounds(<<kind>>, <<k>>, 2 * M) = Fd!InBounds(<<kind>>, <<k>>, 2 * M)

\* the product form of the proposal weights is the brute-force sum over increment vectors
Factorised ==
    pc = "start" => \A v \in Cube(M, D) : QNum(kinds, alpha, u, v, M) = QNumDef(kinds, alpha, u, v, M)

\* pi(u) P(u,v) = pi(v) P(v,u) for every v  (u ranges over the cube in Init: every ordered pair)
DetailedBalance ==
    pc = "start" =>
      \A v \in Cube(M, D) :
          Pi(e, b, u, M) * PNum(Rule, kinds, alpha, e, b, u, v, M) * PDen(Rule, kinds, alpha, e, b, v, M)
        = Pi(e, b, v, M) * PNum(Rule, kinds, alpha, e, b, v, u, M) * PDen(Rule, kinds, alpha, e, b, u, M)

\* the weights of a row add up to the denominator: all proposal mass is accounted for inside the cube
RowStochastic ==
    pc = "start" =>
      /\ row[1] > 0
      /\ \A i \in DOMAIN row[2] : row[2][i] >= 0
      /\ SumF(LAMBDA i : row[2][i], Len(row[2])) = row[1]

\* an accepted / checked-inside proposal is a lattice point of the cube, and so is the successor
NeverLeaves ==
    /\ (pc = "checked" /\ ok) => fol \in Cube(M, D)
    /\ pc = "done" => rec[1] \in Cube(M, D)

\* every move the sweep can make has positive weight in P, with the right proposal weight
StepInSupport ==
    (pc = "done" /\ rec[1] # u) => PNum(Rule, kinds, alpha, e, b, u, rec[1], M) > 0

\* the whole record moves: stored log-likelihood and blob are those of the stored point
RecordCoherent ==
    pc = "done" => /\ rec = RecordOf(rec[1])
                   /\ (acc => rec[1] = fol)
                   /\ (~acc => rec[1] = u)

\* the intended rule never draws twice; the code-shaped rule never rejects for leaving the cube
DrawCount ==
    /\ Rule = "intended" => Len(zs) <= 1
    /\ (pc = "done" /\ Rule = "impl") => ok

=============================================================================
