------------------------------- MODULE Kernel -------------------------------
(***************************************************************************)
(* C03 (a): one Metropolis sweep of one walker of tempest.mcmc.RWMRunner as *)
(* a finite Markov chain on the cell-centred lattice.                        *)
(*                                                                          *)
(*   coordinate value  u = c/(2M), c odd in 1..2M-1   (c = 2k+1, cell k)     *)
(*   increment         z cells  = 2z/(2M)             (z integer, |z| <= 2M) *)
(*   target            pi(u) = 2^(beta*e(u)), e an even integer table,       *)
(*                     beta = b/2, b in {1,2}  (beta = 0 never reaches the   *)
(*                     kernel)                                               *)
(*   proposal law      integer-weighted alphabet of signed increments with   *)
(*                     p(z) = p(-z) (ASSUME AlphabetsSymmetric);             *)
(*                     coordinates independent (the code multiplies a        *)
(*                     diagonal Cholesky factor by randn(d))                 *)
(*   boundary          per coordinate hard | periodic | reflective; the maps *)
(*                     are Fold.tla's (resolution 2M)                        *)
(*                                                                          *)
(* The sweep is the action sequence of BaseMCMCRunner.run / _propose:       *)
(*   Propose(z) -> Fold -> Check -> (Redraw(z'))* -> Accept(r) | Reject(r)   *)
(* Two hard-wall rules:                                                      *)
(*   Rule = "intended": an out-of-cube proposal is a rejection (OutReject)   *)
(*   Rule = "impl"    : Impl_RedrawUntilInside - a FRESH increment is drawn  *)
(*                      from the current state until the proposal is inside  *)
(* From the same operators (FoldVec, InBounds, Pi) the module defines the    *)
(* exact transition weights P(u,v) = PNum/PDen (for "impl" the redraw loop   *)
(* is summed in closed form: the proposal is renormalised by the inside      *)
(* weight WIn(u)), and states detailed balance, row-stochasticity and        *)
(* never-leaves-the-cube as invariants.  A sweep of n walkers is the product *)
(* of n such transitions (proposals for walkers 0..n-1 consume randn in      *)
(* walker order, then ONE rand(n) call supplies the accept uniforms); the    *)
(* harness replays triples of enumerated transitions in one run() call.      *)
(*                                                                          *)
(* Proposal modes and consecutive sweeps.  A case may have K modes ("gains":   *)
(* mode c moves g_c cells per unit innovation, i.e. sigma_c chol_c = g_c/M)   *)
(* and nsweeps consecutive sweeps of ONE run() call (NextSweep).  The         *)
(* walker's label lab selects the mode of EVERY proposal of the call and is   *)
(* never written (LabelFixed, ProposalUsesLabel): each label's kernel is      *)
(* reversible on its own (DetailedBalance is checked per label), whereas a    *)
(* label re-derived from the walker's position between sweeps would make the  *)
(* forward move use mode c(u) and the reverse move c(u').  The harness        *)
(* replays 2- and 3-sweep behaviours with K = 2 (step-size adaptation pinned  *)
(* to a no-op) and requires runner.assignments to be unchanged.               *)
(* Non-finite log-likelihoods are not part of the lattice chain (pi > 0       *)
(* everywhere); the intended rule is stated separately (NonFiniteRule below): *)
(* a proposal whose log-likelihood is -inf or NaN is rejected whatever the    *)
(* accept uniform, also when the CURRENT log-likelihood is -inf (-inf - -inf  *)
(* = NaN: rejected).  The harness replays these cases through parallel_mcmc.  *)
(*                                                                          *)
(* Init enumerates (case, boundary kinds, table, beta, label); Weights        *)
(* tabulates the target and the whole matrix P (weight invariants there);    *)
(* Walker picks the current state u; then the sweep.  Part (b) of C03 (tpCN  *)
(* reversibility identity over rationals) is in KernelTpcn.tla.              *)
(* All state variables are integers, strings or nested sequences so that     *)
(* vlib.fastdump can read the dump.                                          *)
(***************************************************************************)
EXTENDS Integers, Sequences, FiniteSets, TLC

(* Boundary maps: copied verbatim from Fold.tla (C16 checks them against the code and against   *)
(* their definitions); FoldOpsAgree below re-checks the copies against the Fold module itself.  *)
Wrap(k, m) == k % m
Tri(k, m) == LET r == k % (2 * m) IN IF r <= m THEN r ELSE 2 * m - r
FoldCoord(kind, k, m) ==
    CASE kind = "hard"       -> k
      [] kind = "periodic"   -> Wrap(k, m)
      [] kind = "reflective" -> Tri(k, m)
FoldVec(ks, v, m) == [i \in DOMAIN v |-> FoldCoord(ks[i], v[i], m)]
InBounds(ks, v, m) == \A i \in DOMAIN v : ks[i] = "hard" => (0 <= v[i] /\ v[i] <= m)

Fd == INSTANCE Fold WITH Ms <- {1}, Span <- 1, Dims <- {1}, MaxRows <- 1, Span2 <- 1,
                         pc <- "in", M <- 1, kinds <- <<"hard">>, rows <- <<>>, out <- <<>>, ok <- <<>>

CONSTANTS Cases,     \* sequence of << M, d, alpha, tabs, steptabs, bs, maxdraws, gains, nsweeps >> :
                     \*   alpha    = << <<z, w>>, ... >> signed increment z (cells) with integer weight w
                     \*   tabs     = set of tables e (sequences of length M^d); {} means EVERY table over Levels
                     \*   steptabs = the tables for which the sweep actions are enabled (transitions enumerated)
                     \*   bs       = set of b, beta = b/2
                     \*   maxdraws = bound on the number of increments drawn in one proposal (redraw loop unrolled)
                     \*   gains    = << g_1, ..., g_K >> : proposal mode (cluster label) c moves g_c cells per unit of
                     \*              innovation (sigma_c * chol_c = g_c / M); the walker's label selects the mode
                     \*   nsweeps  = number of consecutive sweeps of ONE run() call that are enumerated
          Levels,    \* values of the table e (even integers >= 0)
          Rule,      \* "intended" | "impl"
          HardMode   \* "any" | "none" (no hard coordinate) | "some" (at least one hard coordinate)

VARIABLES pc, ci, M, kinds, e, b, pis, mat, u, zs, prop, fol, ok, rc, acc, rec,
          lab,    \* the walker's cluster label (index into gains): FIXED for the whole run() call
          sw,     \* number of the current sweep, 1..nsweeps
          hist    \* the completed sweeps of this run() call: << <<u, zs, rc, fol, ok, acc, rec>>, ... >>

vars == <<pc, ci, M, kinds, e, b, pis, mat, u, zs, prop, fol, ok, rc, acc, rec, lab, sw, hist>>

Kinds == {"hard", "periodic", "reflective"}

-----------------------------------------------------------------------------
(* Lattice, target *)

D == Len(kinds)
Cells(m) == {c \in 1..(2 * m - 1) : c % 2 = 1}
Cube(m, d) == [1..d -> Cells(m)]

RECURSIVE Pow(_, _)
Pow(x, n) == IF n = 0 THEN 1 ELSE x * Pow(x, n - 1)

RECURSIVE SumF(_, _)
SumF(F(_), n) == IF n = 0 THEN 0 ELSE F(n) + SumF(F, n - 1)
RECURSIVE ProdF(_, _)
ProdF(F(_), n) == IF n = 0 THEN 1 ELSE F(n) * ProdF(F, n - 1)

\* linear index of a cell vector (first coordinate fastest) and its inverse
Idx(v, m) == 1 + SumF(LAMBDA i : ((v[i] - 1) \div 2) * Pow(m, i - 1), Len(v))
CellAt(i, m, d) == [j \in 1..d |-> 2 * (((i - 1) \div Pow(m, j - 1)) % m) + 1]

E(tab, v, m) == tab[Idx(v, m)]
PiOf(tab, bb, i) == Pow(2, (bb * tab[i]) \div 2)            \* 2^(beta*e), an integer because e is even
Min(x, y) == IF x <= y THEN x ELSE y

-----------------------------------------------------------------------------
(* Proposal law                                                                                           *)
(* The law of one coordinate is w/W1Tot; coordinates are independent (diagonal Cholesky factor times      *)
(* randn(d)); fold and bounds check act coordinate-wise, so every weight is a product over coordinates.   *)

Symmetric(al) == \A i \in DOMAIN al : \E j \in DOMAIN al : al[j][1] = -al[i][1] /\ al[j][2] = al[i][2] /\ al[i][2] > 0
Distinct(al) == \A i, j \in DOMAIN al : i # j => al[i][1] # al[j][1]
ASSUME AlphabetsSymmetric == \A k \in DOMAIN Cases : Symmetric(Cases[k][3]) /\ Distinct(Cases[k][3])

Incs(al, d) == [1..d -> {al[i][1] : i \in DOMAIN al}]

\* unfolded proposal, folded proposal, bounds check : exactly the code's three steps
Raw(v, z) == [i \in DOMAIN v |-> v[i] + 2 * z[i]]
Land(ks, v, z, m) == FoldVec(ks, Raw(v, z), 2 * m)
Inside(ks, v, z, m) == InBounds(ks, Land(ks, v, z, m), 2 * m)

\* one coordinate: total weight, weight landing inside, weight landing on cw
W1Tot(al) == SumF(LAMBDA i : al[i][2], Len(al))
W1In(kind, al, c, m) ==
    SumF(LAMBDA i : IF Inside(<<kind>>, <<c>>, <<al[i][1]>>, m) THEN al[i][2] ELSE 0, Len(al))
Q1(kind, al, c, cw, m) ==
    SumF(LAMBDA i : IF Inside(<<kind>>, <<c>>, <<al[i][1]>>, m) /\ Land(<<kind>>, <<c>>, <<al[i][1]>>, m) = <<cw>>
                    THEN al[i][2] ELSE 0, Len(al))

\* the increments (in cells) that mode l of case k makes: g_l times the innovation, same weights
AlphaOf(k, l) == [i \in DOMAIN Cases[k][3] |-> <<Cases[k][8][l] * Cases[k][3][i][1], Cases[k][3][i][2]>>]

\* constant-level tables (TLC evaluates them once): per case, mode, kind, cell, target cell.
\* Below, the argument k of WTot / WIn / QNum / Norm / PDen / PNum / MatOf is the pair << case, mode >>.
QTab   == [k \in DOMAIN Cases |-> [l \in DOMAIN Cases[k][8] |-> [kind \in Kinds |-> [c \in Cells(Cases[k][1]) |-> [cw \in Cells(Cases[k][1]) |->
              Q1(kind, AlphaOf(k, l), c, cw, Cases[k][1])]]]]]
WInTab == [k \in DOMAIN Cases |-> [l \in DOMAIN Cases[k][8] |-> [kind \in Kinds |-> [c \in Cells(Cases[k][1]) |->
              W1In(kind, AlphaOf(k, l), c, Cases[k][1])]]]]
WTotTab == [k \in DOMAIN Cases |-> W1Tot(Cases[k][3])]

WTot(k, d) == ProdF(LAMBDA j : WTotTab[k[1]], d)
WIn(k, ks, v) == ProdF(LAMBDA j : WInTab[k[1]][k[2]][ks[j]][v[j]], Len(v))
QNum(k, ks, v, w) == ProdF(LAMBDA j : QTab[k[1]][k[2]][ks[j]][v[j]][w[j]], Len(v))

\* the same weight by brute-force enumeration of increment vectors (the definition; see Factorised)
QNumDef(ks, al, v, w, m) ==
    LET S == {z \in Incs(al, Len(v)) : Inside(ks, v, z, m) /\ Land(ks, v, z, m) = w}
        WtOf(z) == ProdF(LAMBDA j : (CHOOSE a \in {al[i] : i \in DOMAIN al} : a[1] = z[j])[2], Len(v))
        RECURSIVE Tot(_)
        Tot(T) == IF T = {} THEN 0 ELSE LET z == CHOOSE z \in T : TRUE IN WtOf(z) + Tot(T \ {z})
    IN  Tot(S)

\* normalisation of the proposal actually made from v:
\*   intended: one draw, total weight (out-of-cube mass stays at v)
\*   impl    : redraw until inside = the one-draw law conditioned on being inside
Norm(rule, k, ks, v) == IF rule = "impl" THEN WIn(k, ks, v) ELSE WTot(k, Len(v))

-----------------------------------------------------------------------------
(* Exact transition weights  P(v,w) = PNum(v,w) / PDen(v);  pp = << pi(cell 1), ..., pi(cell M^d) >> *)

PDen(rule, k, ks, pp, v, m) == Norm(rule, k, ks, v) * pp[Idx(v, m)]

\* move v -> w (w # v): proposed with weight QNum, accepted with probability min(1, pi(w)/pi(v))
MoveNum(k, ks, pp, v, w, m) == QNum(k, ks, v, w) * Min(pp[Idx(v, m)], pp[Idx(w, m)])

\* staying at v: proposing v itself, any rejected inside proposal, and (intended rule) the out-of-cube mass
StayNum(rule, k, ks, pp, v, m) ==
    LET pv == pp[Idx(v, m)] IN
      QNum(k, ks, v, v) * pv
    + SumF(LAMBDA i : IF i = Idx(v, m) THEN 0
                      ELSE QNum(k, ks, v, CellAt(i, m, Len(v))) * (pv - Min(pv, pp[i])), Len(pp))
    + (IF rule = "impl" THEN 0 ELSE (WTot(k, Len(v)) - WIn(k, ks, v)) * pv)

PNum(rule, k, ks, pp, v, w, m) ==
    IF w = v THEN StayNum(rule, k, ks, pp, v, m) ELSE MoveNum(k, ks, pp, v, w, m)

\* the matrix in Idx order : row i = << den_i, << num_i1, ..., num_iN >> >>
MatOf(rule, k, ks, pp, m) ==
    [i \in 1..Len(pp) |->
        LET v == CellAt(i, m, Len(ks)) IN
        << PDen(rule, k, ks, pp, v, m), [j \in 1..Len(pp) |-> PNum(rule, k, ks, pp, v, CellAt(j, m, Len(ks)), m)] >>]

-----------------------------------------------------------------------------
(* The sweep of one walker *)

RClasses == {"zero", "low", "high", "top"}
   \* the accept uniform r:  "zero" r = 0;  "low" an interior point of (0, alpha);
   \*                        "high" an interior point of (alpha, 1) - exists only if alpha < 1;
   \*                        "top"  the largest value rand() can return (r < 1)

HardOK(ks) == CASE HardMode = "any"  -> TRUE
                [] HardMode = "none" -> \A i \in DOMAIN ks : ks[i] # "hard"
                [] HardMode = "some" -> \E i \in DOMAIN ks : ks[i] = "hard"

Alpha == Cases[ci][3]
Gain == Cases[ci][8][lab]
KL == <<ci, lab>>
Scaled(z) == [i \in DOMAIN z |-> Gain * z[i]]      \* sigma_c * chol_c @ z  for the walker's mode c = lab
Tabs(k) == IF Cases[k][4] = {} THEN [1..Pow(Cases[k][1], Cases[k][2]) -> Levels] ELSE Cases[k][4]

Init ==
    /\ pc = "init"
    /\ ci \in DOMAIN Cases
    /\ M = Cases[ci][1]
    /\ kinds \in [1..Cases[ci][2] -> Kinds]
    /\ HardOK(kinds)
    /\ e \in Tabs(ci)
    /\ b \in Cases[ci][6]
    /\ lab \in DOMAIN Cases[ci][8]
    /\ sw = 1 /\ hist = <<>>
    /\ pis = <<>> /\ mat = <<>> /\ u = <<>>
    /\ zs = <<>> /\ prop = <<>> /\ fol = <<>> /\ ok = FALSE /\ rc = "none" /\ acc = FALSE /\ rec = <<>>

\* not a step of the code: tabulate the target and the transition matrix (the weight properties are stated here)
Weights ==
    /\ pc = "init"
    /\ pis' = [i \in 1..Len(e) |-> PiOf(e, b, i)]
    /\ mat' = MatOf(Rule, KL, kinds, pis', M)
    /\ pc' = "weights"
    /\ UNCHANGED <<ci, M, kinds, e, b, u, zs, prop, fol, ok, rc, acc, rec, lab, sw, hist>>

\* the walker's current state (a particle of the batch handed to the runner)
Walker ==
    /\ pc = "weights" /\ e \in Cases[ci][5] /\ Cases[ci][7] >= 1
    /\ u' \in Cube(M, D)
    /\ mat' = <<>>
    /\ pc' = "start"
    /\ UNCHANGED <<ci, M, kinds, e, b, pis, zs, prop, fol, ok, rc, acc, rec, lab, sw, hist>>

\* proposal = u + sigma * chol @ randn  (first draw)
Propose ==
    /\ pc = "start"
    /\ \E z \in Incs(Alpha, D) :
         /\ zs' = <<z>>
         /\ prop' = Raw(u, Scaled(z))
    /\ pc' = "proposed"
    /\ UNCHANGED <<ci, M, kinds, e, b, pis, mat, u, fol, ok, rc, acc, rec, lab, sw, hist>>

\* apply_boundary_conditions
Fold ==
    /\ pc = "proposed"
    /\ fol' = FoldVec(kinds, prop, 2 * M)
    /\ pc' = "folded"
    /\ UNCHANGED <<ci, M, kinds, e, b, pis, mat, u, zs, prop, ok, rc, acc, rec, lab, sw, hist>>

\* check_bounds
Check ==
    /\ pc = "folded"
    /\ ok' = InBounds(kinds, fol, 2 * M)
    /\ pc' = "checked"
    /\ UNCHANGED <<ci, M, kinds, e, b, pis, mat, u, zs, prop, fol, rc, acc, rec, lab, sw, hist>>

\* code-shaped hard-wall rule: `while True:` draws a FRESH increment from the CURRENT state
Impl_RedrawUntilInside ==
    /\ pc = "checked" /\ ~ok /\ Rule = "impl"
    /\ Len(zs) < Cases[ci][7]
    /\ \E z \in Incs(Alpha, D) :
         /\ zs' = Append(zs, z)
         /\ prop' = Raw(u, Scaled(z))
    /\ pc' = "proposed"
    /\ UNCHANGED <<ci, M, kinds, e, b, pis, mat, u, fol, ok, rc, acc, rec, lab, sw, hist>>

RecordOf(v) == <<v, E(e, v, M), Idx(v, M)>>     \* (u = x, logl table value, blob tag) move together
PiAt(v) == pis[Idx(v, M)]

\* intended hard-wall rule: the out-of-cube proposal is rejected whatever the accept uniform is
OutReject ==
    /\ pc = "checked" /\ ~ok /\ Rule = "intended"
    /\ rc' \in {"zero", "low", "top"}
    /\ acc' = FALSE
    /\ rec' = RecordOf(u)
    /\ pc' = "done"
    /\ UNCHANGED <<ci, M, kinds, e, b, pis, mat, u, zs, prop, fol, ok, lab, sw, hist>>

\* alpha = min(1, exp(beta*(logl' - logl)));  mask = r < alpha
Accepts(r, v) ==
    \/ r \in {"zero", "low"}                 \* 0 < alpha always
    \/ r = "top" /\ PiAt(v) >= PiAt(u)       \* alpha = 1

Accept ==
    /\ pc = "checked" /\ ok
    /\ rc' \in RClasses /\ (rc' = "high" => PiAt(fol) < PiAt(u))
    /\ Accepts(rc', fol)
    /\ acc' = TRUE
    /\ rec' = RecordOf(fol)
    /\ pc' = "done"
    /\ UNCHANGED <<ci, M, kinds, e, b, pis, mat, u, zs, prop, fol, ok, lab, sw, hist>>

Reject ==
    /\ pc = "checked" /\ ok
    /\ rc' \in RClasses /\ (rc' = "high" => PiAt(fol) < PiAt(u))
    /\ ~Accepts(rc', fol)
    /\ acc' = FALSE
    /\ rec' = RecordOf(u)
    /\ pc' = "done"
    /\ UNCHANGED <<ci, M, kinds, e, b, pis, mat, u, zs, prop, fol, ok, lab, sw, hist>>

\* `while True:` of run(): the next sweep starts from the record the last one left; the label is NOT touched
\* (assignments are an input of run() and are never written by it)
NextSweep ==
    /\ pc = "done" /\ sw < Cases[ci][9]
    /\ hist' = Append(hist, <<u, zs, rc, fol, ok, acc, rec>>)
    /\ u' = rec[1]
    /\ sw' = sw + 1
    /\ zs' = <<>> /\ prop' = <<>> /\ fol' = <<>> /\ ok' = FALSE /\ rc' = "none" /\ acc' = FALSE /\ rec' = <<>>
    /\ pc' = "start"
    /\ UNCHANGED <<ci, M, kinds, e, b, pis, mat, lab>>

Next == Weights \/ Walker \/ Propose \/ Fold \/ Check \/ Impl_RedrawUntilInside \/ OutReject \/ Accept \/ Reject \/ NextSweep

Spec == Init /\ [][Next]_vars

-----------------------------------------------------------------------------
(* Properties (C03 a) *)

TypeOK ==
    /\ pc \in {"init", "weights", "start", "proposed", "folded", "checked", "done"}
    /\ b \in Cases[ci][6]
    /\ Len(e) = Pow(M, D)
    /\ \A i \in DOMAIN e : e[i] % 2 = 0 /\ e[i] >= 0
    /\ Rule \in {"intended", "impl"}
    /\ pc \notin {"init", "weights"} => u \in Cube(M, D)

N == Len(pis)

\* pi(u) P(u,v) = pi(v) P(v,u) for every ordered pair of lattice states
DetailedBalance ==
    pc = "weights" =>
      \A i, j \in 1..N : pis[i] * mat[i][2][j] * mat[j][1] = pis[j] * mat[j][2][i] * mat[i][1]

\* the weights of every row add up to its denominator: all proposal mass is accounted for inside the cube
RowStochastic ==
    pc = "weights" =>
      \A i \in 1..N : /\ mat[i][1] > 0
                      /\ \A j \in 1..N : mat[i][2][j] >= 0
                      /\ SumF(LAMBDA j : mat[i][2][j], N) = mat[i][1]

\* a checked-inside proposal is a lattice point of the cube, and so is the successor
NeverLeaves ==
    /\ (pc = "checked" /\ ok) => fol \in Cube(M, D)
    /\ pc = "done" => rec[1] \in Cube(M, D)

\* every move the sweep can make has positive weight in P
StepInSupport ==
    (pc = "done" /\ rec[1] # u) => PNum(Rule, KL, kinds, pis, u, rec[1], M) > 0

\* the whole record moves: stored log-likelihood and blob are those of the stored point
RecordCoherent ==
    pc = "done" => /\ rec = RecordOf(rec[1])
                   /\ (acc => rec[1] = fol)
                   /\ (~acc => rec[1] = u)

\* the intended rule never draws twice; the code-shaped rule never rejects for leaving the cube
DrawCount ==
    /\ Rule = "intended" => Len(zs) <= 1
    /\ (pc = "done" /\ Rule = "impl") => ok

\* every proposal of every sweep is made with the mode of the walker's label, and the label never changes
ProposalUsesLabel ==
    pc \in {"proposed", "folded", "checked", "done"} => prop = Raw(u, Scaled(zs[Len(zs)]))
LabelFixed == [][lab' = lab]_vars
SweepCount == sw = Len(hist) + 1 /\ sw <= Cases[ci][9]

\* Non-finite log-likelihoods: classes "fin", "-inf", "nan" of the current (lu) and the proposed (lv) value.
\* beta*(lv - lu) is NaN when either is NaN or both are -inf, -inf when only lv is -inf, +inf when only lu is -inf.
LogRatioClass(lu, lv) ==
    CASE lu = "nan" \/ lv = "nan"        -> "nan"
      [] lu = "-inf" /\ lv = "-inf"      -> "nan"
      [] lv = "-inf"                      -> "-inf"
      [] lu = "-inf"                      -> "+inf"
      [] OTHER                            -> "fin"
\* acceptance probability class: a NaN ratio is a REJECTION (alpha = 0), never an acceptance
AlphaClass(rcls) == CASE rcls = "nan" -> "zero" [] rcls = "-inf" -> "zero" [] rcls = "+inf" -> "one" [] OTHER -> "min(1, exp)"
ASSUME NonFiniteRule ==
    \A lu \in {"fin", "-inf", "nan"} : \A lv \in {"-inf", "nan"} : AlphaClass(LogRatioClass(lu, lv)) = "zero"

\* the product form of the proposal weights is the brute-force sum over increment vectors
Factorised ==
    (pc = "weights" /\ b = (CHOOSE x \in Cases[ci][6] : TRUE) /\ e = (CHOOSE t \in Tabs(ci) : TRUE)) => \A v, w \in Cube(M, D) : QNum(KL, kinds, v, w) = QNumDef(kinds, AlphaOf(ci, lab), v, w, M)

\* the copied boundary operators are Fold.tla's
FoldOpsAgree ==
    pc = "init" => \A k \in (-6 * M)..(6 * M) : \A kind \in Kinds :
        /\ FoldCoord(kind, k, 2 * M) = Fd!FoldCoord(kind, k, 2 * M)
        /\ InBounds(<<kind>>, <<k>>, 2 * M) = Fd!InBounds(<<kind>>, <<k>>, 2 * M)

=============================================================================
