------------------------------ MODULE StudentPair ------------------------------
(***************************************************************************)
(* C19 - the Student-t proposal fit (tempest.student.fit_mvstud) as a loop  *)
(* of ECME iterations, and its SELF-COMPOSITION under the property's group  *)
(* of maps  g(x) = S P x + t  (S positive diagonal, P a coordinate          *)
(* permutation, t a translation).                                           *)
(*                                                                          *)
(* The algorithm, in real arithmetic (n points x_i, dimension p):           *)
(*   Initialise:  mu := coordinate-wise median, Sigma := moment estimate,   *)
(*                nu := 20, last_nu := 0, k := 0                            *)
(*   while |last_nu - nu| > Tol /\ k < Max:      (one Iterate per pass)     *)
(*       k := k + 1                                                         *)
(*       delta_i := (x_i - mu)^T Sigma^-1 (x_i - mu)                        *)
(*       last_nu := nu                                                      *)
(*       OptNu:  IF F(NuTest) >= 0 THEN nu := inf ; RETURN (mu, Sigma, inf) *)
(*               ELSE nu := the root of F,                                  *)
(*         F(v) = -psi(v/2) + ln(v/2) + mean ln w - mean w + 1              *)
(*                + psi((v+p)/2) - ln((v+p)/2),   w_i = (v+p)/(v+delta_i)   *)
(*       Sigma := (1/n) SUM w_i (x_i-mu)(x_i-mu)^T ,  w_i at the new nu     *)
(*       mu    := SUM w_i x_i / SUM w_i                                     *)
(*   RETURN (mu, Sigma, nu)                                                 *)
(*                                                                          *)
(* Coupling relation R(g) of two runs, A on X and B on g(X), after          *)
(* Initialise and after every Iterate:                                      *)
(*   mu_B = g(mu_A),  Sigma_B = S P Sigma_A P^T S,  nu_B = nu_A,            *)
(*   delta_B = delta_A (the Mahalanobis distances are invariants), the same *)
(*   branch of OptNu, the same loop decision, the same number of iterations.*)
(* R(g) is inductive for the real-arithmetic algorithm: median, moment      *)
(* estimate, Mahalanobis distance, F, and the two weighted updates are each *)
(* equivariant / invariant; TLC validates it on behaviours of the CODE.     *)
(*                                                                          *)
(* TLC has no reals.  Every real-valued state component arrives as a TAG    *)
(* shared by the two runs of a pair: equal tag <=> equal after applying g   *)
(* up to the pair's rounding tolerance (decided by the projection in        *)
(* vlib/student_obs.py + checks/c19.py, recorded in the replay file); every *)
(* real-arithmetic definition above that a step must satisfy arrives as the *)
(* truth value of "logged output = definition applied to logged input".     *)
(* Comparisons of the loop test with Tol and k with Max are exact (made on  *)
(* the true doubles / integers).  Verdicts are total: every logged step of  *)
(* both runs is consumed and the failing clauses are printed by name.       *)
(*                                                                          *)
(* Input: JSON list of items                                                *)
(*   [kind |-> "pair",  max, a, b]   a, b = [init, its, fin]                *)
(*   [kind |-> "modes", m]           one ModeStatistics construction        *)
(*   [kind |-> "degen", info]        degenerate data: outcome reported only *)
(***************************************************************************)
EXTENDS Integers, Sequences, FiniteSets, TLC, Json, IOUtils

CONSTANT ImplBranch   \* FALSE: OptNu as intended;  TRUE: Impl_OptNuFloat (the branch test as double arithmetic evaluates it)

Items == JsonDeserialize(IOEnv.TRACE_FILE)

VARIABLES pid, pc, i, st, fails

vars == <<pid, pc, i, st, fails>>

It == Items[pid]
A == It.a
B == It.b
LenA == Len(A.its)
LenB == Len(B.its)
LenMin == IF LenA < LenB THEN LenA ELSE LenB
LenMax == IF LenA < LenB THEN LenB ELSE LenA

Failing(who, c) == {<<who, n>> : n \in {m \in DOMAIN c : ~c[m]}}
Report(tag, f) == \A c \in f : PrintT(<<tag, pid, i, c[1], c[2]>>)

Init == pid \in 1..Len(Items) /\ pc = "start" /\ i = 0 /\ st = "ok" /\ fails = {}

-----------------------------------------------------------------------------
(* Initialise: the coupling holds for the initial estimates; both scale     *)
(* matrices are positive definite (the first solve is well posed).          *)
InitClauses ==
    [MuEquivariant    |-> A.init.mu = B.init.mu,
     SigmaEquivariant |-> A.init.sig = B.init.sig]

RunInit(x) == [InitSigmaPD |-> x.init.pd, InitMuFinite |-> x.init.fin]

Initialise ==
    /\ pc = "start" /\ It.kind = "pair"
    /\ LET f == Failing("P", InitClauses) \cup Failing("A", RunInit(A)) \cup Failing("B", RunInit(B)) IN
       /\ fails' = f
       /\ Report("FAIL", f)
    /\ pc' = "loop" /\ i' = 1
    /\ UNCHANGED <<pid, st>>

-----------------------------------------------------------------------------
(* OptNu.  x.ex is the sign of the REAL value of F at the code's own test   *)
(* point ("inf": F >= 0, "root": F < 0, "tie": too close to zero for any    *)
(* double evaluation).  x.blind says that the test point is beyond double   *)
(* resolution: fl(NuTest + p) = NuTest and fl(NuTest + delta_i) = NuTest,   *)
(* so that every w_i is exactly 1 and the double value of F is 0.           *)
Intended_Branch(x) == x.ex
Impl_OptNuFloat(x) == IF x.blind THEN "inf" ELSE x.ex
ExpectedBranch(x) == IF ImplBranch THEN Impl_OptNuFloat(x) ELSE Intended_Branch(x)

(* one pass of the loop of ONE run: control flow of the code and the        *)
(* definitions of the ECME step                                             *)
RunStep(x, k, len) ==
    [FlowIterBound      |-> k <= It.max,
     FlowReturnOnInf    |-> (x.br = "inf") <=> (x.dec = "ret"),
     FlowRaise          |-> (x.br = "raise") <=> (x.dec = "raise"),
     FlowLoopTest       |-> x.br = "root" => ((x.dec = "cont") <=> (x.over /\ k < It.max)),
     FlowLast           |-> (x.dec = "cont") <=> (k < len),
     TestIsNuDifference |-> x.tst,
     DeltaIsMahalanobis |-> x.dok,
     BranchAsExact      |-> x.br = "raise" \/ ExpectedBranch(x) = "tie" \/ x.br = ExpectedBranch(x),
     NuIsRoot           |-> x.rok,
     SigmaIsUpdate      |-> x.sok,
     MuIsUpdate         |-> x.mok]

(* the coupling after one pass *)
PairStep(x, y) ==
    [DeltaInvariant   |-> x.delta = y.delta,
     SameBranch       |-> x.br = y.br,
     NuEqual          |-> x.br # y.br \/ x.nu = y.nu,
     SigmaEquivariant |-> x.br # y.br \/ x.sig = y.sig,
     MuEquivariant    |-> x.br # y.br \/ x.mu = y.mu,
     SameDecision     |-> x.br # y.br \/ x.dec = y.dec]

(* a discrete decision that differs while the deciding quantity of either   *)
(* run is within the pair's rounding band of the threshold is a near-tie:   *)
(* the pair is inconclusive from here on (re-drawn by the harness), never a *)
(* violation                                                                *)
TieStep(x, y) ==
    \/ x.br # y.br /\ (x.tieb \/ y.tieb)
    \/ x.br = y.br /\ x.dec # y.dec /\ (x.tiec \/ y.tiec)

Coupled == i <= LenMin /\ st = "ok"

StepKind ==
    IF ~Coupled THEN "alone"
    ELSE IF A.its[i].br = "root" THEN "update"
    ELSE IF A.its[i].br = "inf" THEN "retinf"
    ELSE "raise"

IterateBody ==
    /\ pc = "loop" /\ i <= LenMax
    /\ LET fa == IF i <= LenA THEN Failing("A", RunStep(A.its[i], i, LenA)) ELSE {}
           fb == IF i <= LenB THEN Failing("B", RunStep(B.its[i], i, LenB)) ELSE {}
           tie == Coupled /\ TieStep(A.its[i], B.its[i])
           fp == IF ~Coupled THEN {}
                 ELSE IF tie THEN Failing("P", PairStep(A.its[i], B.its[i])) \ {<<"P", "SameBranch">>, <<"P", "SameDecision">>}
                 ELSE Failing("P", PairStep(A.its[i], B.its[i]))
           f == fa \cup fb \cup fp
       IN /\ fails' = f
          /\ st' = (IF tie THEN "tie" ELSE st)
          /\ Report("FAIL", f)
          /\ (IF tie THEN PrintT(<<"TIE", pid, i, "P", IF A.its[i].br # B.its[i].br THEN "SameBranch" ELSE "SameDecision">>) ELSE TRUE)
    /\ i' = i + 1
    /\ UNCHANGED <<pid, pc>>

\* OptNu found a root: Sigma and mu updated, loop test evaluated
IterateUpdate == /\ pc = "loop" /\ i <= LenMax /\ StepKind = "update"
                 /\ IterateBody
\* OptNu chose nu = inf: the run returns the incoming (mu, Sigma)
IterateReturnInf == /\ pc = "loop" /\ i <= LenMax /\ StepKind = "retinf"
                    /\ IterateBody
\* the iteration raised in run A
IterateRaise == /\ pc = "loop" /\ i <= LenMax /\ StepKind = "raise"
                /\ IterateBody
\* steps of the longer run / of both runs after a near-tie: single-run clauses only
IterateAlone == /\ pc = "loop" /\ i <= LenMax /\ StepKind = "alone"
                /\ IterateBody

-----------------------------------------------------------------------------
(* End of both runs: the coupling of the returned triples, and the          *)
(* well-posedness clauses of the property's first sentence on each of them. *)
RunFinal(x) ==
    [NotRaised        |-> ~x.fin.raised,
     ReturnsLastState |-> x.fin.last,
     MuFinite         |-> x.fin.wp.MuFinite,
     MuInBox          |-> x.fin.wp.MuInBox,
     SigmaSymmetric   |-> x.fin.wp.SigmaSymmetric,
     SigmaPD          |-> x.fin.wp.SigmaPD,
     NuRange          |-> x.fin.wp.NuRange]

PairFinal ==
    [SameLength            |-> LenA = LenB,
     FinalMuEquivariant    |-> A.fin.mu = B.fin.mu,
     FinalSigmaEquivariant |-> A.fin.sig = B.fin.sig,
     FinalNuEqual          |-> A.fin.nu = B.fin.nu]

Finish ==
    /\ pc = "loop" /\ i = LenMax + 1
    /\ LET f == Failing("A", RunFinal(A)) \cup Failing("B", RunFinal(B)) \cup (IF st = "ok" THEN Failing("P", PairFinal) ELSE {}) IN
       /\ fails' = f
       /\ Report("FAIL", f)
    /\ pc' = "done"
    /\ UNCHANGED <<pid, i, st>>

-----------------------------------------------------------------------------
(* ModeStatistics.from_particles / from_global: what reaches the kernel.    *)
(* raw / stored classify a degree of freedom:                               *)
(*   "pos" finite and > 0, "inf", "nan", "nonpos" finite and <= 0           *)
Fallback(m) == IF m.raw \in {"inf", "nan"} THEN "fallback" ELSE "raw"     \* non-finite dof are replaced, finite ones kept

ModeClauses(m) ==
    [KernelDofFinitePositive |-> m.stored = "pos",
     FallbackApplied         |-> Fallback(m) = "fallback" => m.isfb,
     FiniteDofKept           |-> Fallback(m) = "raw" => m.israw,
     MeanFromFit             |-> m.meanok,
     CovarianceFromFit       |-> m.covok,
     InverseFinite           |-> m.invfin,
     InverseInverts          |-> m.invok,
     CholeskyFinite          |-> m.cholfin,
     CholeskyFactorises      |-> m.cholok,
     ResampledFromSupport    |-> m.resok]

Modes ==
    /\ pc = "start" /\ It.kind = "modes"
    /\ LET f == (IF It.m.raised THEN {<<"M", "Constructed">>} ELSE {})
                \cup UNION {Failing(ToString(j), ModeClauses(It.m.modes[j])) : j \in 1..Len(It.m.modes)}
                \cup Failing("M", [OneModePerLabel |-> It.m.kok])
       IN /\ fails' = f
          /\ Report("FAIL", f)
    /\ pc' = "done"
    /\ UNCHANGED <<pid, i, st>>

(* Degenerate data (constant coordinate, collinear points, n < p+1) are     *)
(* outside "non-degenerate data set": the outcome is reported, not judged.  *)
Degenerate ==
    /\ pc = "start" /\ It.kind = "degen"
    /\ PrintT(<<"INFO", pid, 0, It.info.what, It.info.outcome>>)
    /\ fails' = {}
    /\ pc' = "done"
    /\ UNCHANGED <<pid, i, st>>

Next == Initialise \/ IterateUpdate \/ IterateReturnInf \/ IterateRaise \/ IterateAlone \/ Finish \/ Modes \/ Degenerate
Spec == Init /\ [][Next]_vars

TypeOK ==
    /\ pc \in {"start", "loop", "done"}
    /\ st \in {"ok", "tie"}
    /\ i >= 0
    /\ (It.kind = "pair" => i <= LenMax + 1)
=============================================================================
