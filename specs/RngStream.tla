----------------------------- MODULE RngStream -----------------------------
(***************************************************************************)
(* Provenance of numpy's process-wide random stream across library          *)
(* operations.  The stream is g = [origin, pos]: which seeding it descends   *)
(* from and how many numbers were drawn since.  The call graph says which    *)
(* library operation performs which stream operation:                        *)
(*   variant "intended": a fresh run seeds with the user's random_state (if   *)
(*       given); iterations and clustering fits only DRAW (fits use a private *)
(*       generator); load restores the saved stream.                         *)
(*   variant "impl" (pinned tree): fresh run does not seed; every clustering  *)
(*       fit re-seeds the global stream with the constant 42; load re-seeds   *)
(*       with random_state.                                                  *)
(* Two runs are executed one after the other in one behaviour (self-         *)
(* composition) to state reproducibility.                                    *)
(***************************************************************************)
EXTENDS Integers, Sequences, FiniteSets, TLC

CONSTANTS Seeds,       \* user seeds, e.g. {1, 2}
          MaxIter,     \* iterations per run
          Variant      \* "intended" | "impl"

VARIABLES g,        \* [origin, pos]
          op,       \* last operation performed (for action properties)
          run,      \* 1 or 2: which run of the pair is executing; 3 = both finished
          rs,       \* <<random_state of run 1, random_state of run 2>>, 0 = None
          it,       \* iterations done in the current run
          log,      \* <<log of run 1, log of run 2>>: the stream position at the start of every drawing step
          saved,    \* stream stored in the checkpoint of the current run (or "none")
          clustered \* whether the current run uses clustering (each iteration then contains a fit)

vars == <<g, op, run, rs, it, log, saved, clustered>>

Entropy(n) == [origin |-> <<"entropy", n>>, pos |-> 0]
User(s)    == [origin |-> <<"user", s>>, pos |-> 0]
Lib(c)     == [origin |-> <<"lib", c>>, pos |-> 0]
Draw(k)    == [g EXCEPT !.pos = @ + k]

Init ==
    /\ g = Entropy(1) /\ op = "start" /\ run = 1 /\ it = 0 /\ log = <<<<>>, <<>>>> /\ saved = "none"
    /\ rs \in (Seeds \cup {0}) \X (Seeds \cup {0})
    /\ clustered \in BOOLEAN

\* the application may seed or draw between constructing and running (ambient state differs between runs)
Ambient ==
    /\ run \in {1, 2} /\ it = 0 /\ op \in {"start", "ambient"}
    /\ g' = Entropy(run + 10) /\ op' = "ambient"
    /\ UNCHANGED <<run, rs, it, log, saved, clustered>>

RunFresh ==
    /\ run \in {1, 2} /\ it = 0 /\ op \in {"start", "ambient"}
    /\ g' = IF Variant = "intended" /\ rs[run] # 0 THEN User(rs[run]) ELSE g
    /\ op' = "runfresh"
    /\ UNCHANGED <<run, rs, it, log, saved, clustered>>

\* one sampler iteration: reweight/resample/mutate draw; with clustering a mixture fit happens first
Iterate ==
    /\ run \in {1, 2} /\ op \in {"runfresh", "iterate", "load"} /\ it < MaxIter
    /\ LET afterFit == IF clustered /\ Variant = "impl" THEN Lib(42) ELSE g IN
       /\ log' = [log EXCEPT ![run] = Append(@, afterFit)]
       /\ g' = [afterFit EXCEPT !.pos = @ + 1]
    /\ it' = it + 1 /\ op' = "iterate"
    /\ UNCHANGED <<run, rs, saved, clustered>>

Save ==
    /\ run \in {1, 2} /\ op = "iterate"
    /\ saved' = g /\ op' = "save"
    /\ UNCHANGED <<g, run, rs, it, log, clustered>>

\* a new process resumes from the checkpoint just written: its ambient stream is unrelated
LoadResume ==
    /\ run \in {1, 2} /\ op = "save"
    /\ g' = IF Variant = "intended" THEN saved ELSE (IF rs[run] # 0 THEN User(rs[run]) ELSE Entropy(99))
    /\ op' = "load"
    /\ UNCHANGED <<run, rs, it, log, saved, clustered>>

Finish ==
    /\ run \in {1, 2} /\ it = MaxIter /\ op \in {"iterate"}
    /\ run' = run + 1 /\ it' = 0 /\ op' = "start" /\ saved' = "none"
    /\ UNCHANGED <<g, rs, log, clustered>>

Next == Ambient \/ RunFresh \/ Iterate \/ Save \/ LoadResume \/ Finish
Spec == Init /\ [][Next]_vars

-----------------------------------------------------------------------------
\* no library operation resets the stream to a fixed value: the origin changes only by the user's own
\* seeding (ambient, or a fresh run constructed with random_state) or by restoring a saved stream
NoLibReseed ==
    [][g'.origin # g.origin => (op' = "ambient" \/ (op' = "runfresh" /\ g' = User(rs[run])) \/ (op' = "load" /\ g' = saved))]_vars

\* successive drawing steps of one run never start from the same stream position (no replayed innovations)
NoReplay == \A r \in {1, 2} : \A i, j \in DOMAIN log[r] : i # j => log[r][i] # log[r][j]

\* a resumed run continues the stream of the run that wrote the checkpoint
ResumeContinues == op = "load" => g = saved

\* seeded runs are reproducible whatever the ambient stream was, and different seeds give different streams
Reproducible ==
    run = 3 => /\ (rs[1] # 0 /\ rs[1] = rs[2]) => log[1] = log[2]
               /\ (rs[1] # 0 /\ rs[2] # 0 /\ rs[1] # rs[2]) => log[1] # log[2]
=============================================================================
