------------------------------- MODULE Trim -------------------------------
(***************************************************************************)
(* Weight utilities of tempest.tools on integer weight vectors:            *)
(*   effective_sample_size / compute_ess   ESS(w) = (sum w)^2 / sum w^2     *)
(*   trim_weights(samples, weights, ess, bins)                              *)
(*                                                                          *)
(* Everything is integer / rational (cross-multiplied), so every comparison *)
(* the code makes in floating point is decided exactly here.  The trimming  *)
(* part is shaped like the code: one action per iteration of the            *)
(* `while True` loop, the code's `>=` comparisons, the code's percentile    *)
(* grid np.linspace(0, 99, bins) searched from the top, and numpy's default *)
(* ('linear') percentile: virtual index (N-1)*p/100, interpolation between  *)
(* the two neighbouring order statistics.                                   *)
(*                                                                          *)
(* Normalisation (`weights /= sum`) is not a separate step: a weight is the *)
(* rational w[j]/S and every comparison is multiplied through by S*D.       *)
(*                                                                          *)
(* The spec also FLAGS (variable amb) the iterations at which the double    *)
(* computation of the code is not determined by the exact one: an integral  *)
(* virtual index at a non-zero percentile, an ESS ratio exactly equal to    *)
(* `ess`, or a decision margin below 1/MarginInv (relative).  Behaviours    *)
(* with a flag are not replayed into the code (they are counted).           *)
(***************************************************************************)
EXTENDS Integers, Sequences, FiniteSets, TLC, Functions

CONSTANTS Vals,       \* set of admissible weight entries (non-negative integers)
          MinLen,     \* vector lengths MinLen..MaxLen
          MaxLen,
          Bins,       \* set of `bins` arguments (>= 1)
          EssPct,     \* set of `ess` arguments in percent: ess = EssPct/100
          MarginInv   \* decisions with relative margin < 1/MarginInv are flagged

VARIABLES w,      \* the weight vector (sequence of integers); never changes
          bins,   \* argument
          essp,   \* argument, percent
          i,      \* the loop variable of the code (index into the percentile grid)
          pc,     \* "loop" | "done"
          mask,   \* set of positions selected by the last evaluated threshold
          thN,    \* last evaluated threshold, theta = thN / (D * S)
          amb     \* set of ambiguity flags accumulated along the behaviour

vars == <<w, bins, essp, i, pc, mask, thN, amb>>

-----------------------------------------------------------------------------
(* Arithmetic helpers *)

Abs(x)     == IF x < 0 THEN -x ELSE x
Max2(x, y) == IF x >= y THEN x ELSE y
Min2(x, y) == IF x <= y THEN x ELSE y

\* sum of f[x] over x in the set T  (CommunityModules Functions!SumFunctionOnSet)
SumOn(f, T) == SumFunctionOnSet(f, T)

\* x, y >= 0 over a common denominator.  Robust: they differ by more than max/MarginInv.
\* (floor(max/diff) < MarginInv  <=>  diff * MarginInv > max ; no 32-bit overflow this way)
Robust(x, y) == x # y /\ (Max2(x, y) \div Abs(x - y)) < MarginInv
Close(x, y)  == x # y /\ ~Robust(x, y)

-----------------------------------------------------------------------------
(* Effective sample size as a rational  <<EssNum, EssDen>> *)

Idx(v)     == 1..Len(v)
S1(v, m)   == SumOn([j \in Idx(v) |-> v[j]], m)           \* sum of weights over positions m
S2(v, m)   == SumOn([j \in Idx(v) |-> v[j] * v[j]], m)    \* sum of squares
EssNum(v)  == S1(v, Idx(v)) * S1(v, Idx(v))
EssDen(v)  == S2(v, Idx(v))
NPos(v)    == Cardinality({j \in Idx(v) : v[j] > 0})
Scaled(a, v) == [j \in Idx(v) |-> a * v[j]]

\* 1 <= ESS <= N   (indeed <= number of positive entries)
EssBoundsOf(v)  == /\ EssDen(v) <= EssNum(v)
                   /\ EssNum(v) <= NPos(v) * EssDen(v)
                   /\ NPos(v) <= Len(v)
\* ESS(a w) = ESS(w)
EssScaleOf(v)   == \A a \in 1..3 : EssNum(Scaled(a, v)) * EssDen(v) = EssNum(v) * EssDen(Scaled(a, v))
\* ESS(uniform) = N
EssUniformOf(v) == (\A j, k \in Idx(v) : v[j] = v[k]) => EssNum(v) = Len(v) * EssDen(v)
\* the log-weight variant returns ESS/N : in [1/N, 1]
EssFracBoundsOf(v) == /\ EssNum(v) <= Len(v) * EssDen(v)
                      /\ EssDen(v) <= EssNum(v)

-----------------------------------------------------------------------------
(* The percentile threshold exactly as numpy computes it (method 'linear')  *)

N    == Len(w)
All  == 1..N
S    == S1(w, All)
Q    == S2(w, All)
D    == 100 * Max2(bins - 1, 1)              \* p_k = 99 k/(bins-1) ; p_k/100 = 99 k / D

\* percentiles[k] with Python's negative indexing (k in -bins .. bins-1)
PIdx(k) == IF k >= 0 THEN k ELSE bins + k

VNum(k) == (N - 1) * 99 * PIdx(k)            \* virtual index = VNum / D  (< N-1 unless N = 1)
Lo(k)   == VNum(k) \div D                    \* previous index (0-based)
Gn(k)   == VNum(k) % D                       \* gamma = Gn / D

\* r-th order statistic (0-based) of w : np.percentile sorts (partitions) the array
Sorted == SortSeq(w, LAMBDA x, y : x < y)
OrderStat(r) == Sorted[r + 1]

\* the same without sorting (counting definition); SortedOK states that they agree
OrderStatByCount(r) ==
    CHOOSE x \in {w[j] : j \in All} :
        /\ Cardinality({j \in All : w[j] < x}) <= r
        /\ r < Cardinality({j \in All : w[j] <= x})

LoVal(k) == OrderStat(Lo(k))
HiVal(k) == OrderStat(Min2(Lo(k) + 1, N - 1))

\* theta_k * S * D  =  a D + (b - a) gamma D
ThetaN(k) == LET a == LoVal(k) IN a * D + (HiVal(k) - a) * Gn(k)

\* mask = weights >= threshold
MaskAt(k) == LET t == ThetaN(k) d == D IN {j \in All : w[j] * d >= t}

\* ess_trimmed / ess_total >= ess    with ESS(m) = S1(m)^2/S2(m):
\*   S1(m)^2 Q 100  >=  essp S2(m) S^2
RatioL(m) == LET s == S1(w, m) IN s * s * Q * 100
RatioR(m) == LET s == S IN essp * S2(w, m) * s * s
RatioGE(m) == RatioL(m) >= RatioR(m)

-----------------------------------------------------------------------------
(* Ambiguity of the double computation at iteration k *)

ThreshFlags(k) ==
    \* virtual index is an exact integer at a non-zero percentile: floor() of the double
    \* product (N-1)*(p/100) may land on either side, moving the threshold across a weight
    (IF Gn(k) = 0 /\ VNum(k) # 0 THEN {"thresh_tie"} ELSE {})
    \cup
    \* threshold within the margin of (but not equal to) some weight
    (LET t == ThetaN(k) d == D IN
     IF \E j \in All : Close(w[j] * d, t) THEN {"thresh_close"} ELSE {})

\* m = MaskAt(k)
RatioFlags(m) ==
    LET l == RatioL(m) r == RatioR(m) IN
    (IF l = r THEN {"ratio_tie"} ELSE {})
    \cup
    (IF Close(l, r) THEN {"ratio_close"} ELSE {})

Flags(k, m) == ThreshFlags(k) \cup RatioFlags(m)

\* A threshold that EQUALS a weight is unambiguous in two cases only, and these are the only
\* cases that occur un-flagged: p = 0 (virtual index 0*x = 0 exactly, gamma = 0, a + d*0 = a) or
\* equal neighbours (numpy's lerp computes a + (b-a)*t with b-a = 0 exactly).
ExactTieAt(k) ==
    LET t == ThetaN(k) d == D IN
    (\E j \in All : w[j] * d = t) =>
        \/ Gn(k) = 0                    \* flagged above unless the virtual index is 0
        \/ LoVal(k) = HiVal(k)

-----------------------------------------------------------------------------
(* State machine: the while-loop of trim_weights *)

WeightVectors ==
    {v \in UNION {[1..n -> Vals] : n \in MinLen..MaxLen} : S1(v, Idx(v)) > 0}

Init ==
    /\ w \in WeightVectors
    /\ bins \in Bins
    /\ essp \in EssPct
    /\ i = bins - 1
    /\ pc = "loop"
    /\ mask = {}
    /\ thN = 0
    /\ amb = {}

\* `percentiles[i]` raises IndexError for i < -bins: no action is enabled there.
Indexable == i >= -bins

\* if ess_trimmed / ess_total >= ess: break
Accept ==
    /\ pc = "loop" /\ Indexable
    /\ LET m == MaskAt(i) IN
         /\ RatioGE(m)
         /\ mask' = m
         /\ amb' = amb \cup Flags(i, m)
    /\ thN' = ThetaN(i)
    /\ pc' = "done"
    /\ UNCHANGED <<w, bins, essp, i>>

\* else: i -= 1
Retreat ==
    /\ pc = "loop" /\ Indexable
    /\ LET m == MaskAt(i) IN
         /\ ~RatioGE(m)
         /\ mask' = m
         /\ amb' = amb \cup Flags(i, m)
    /\ thN' = ThetaN(i)
    /\ i' = i - 1
    /\ pc' = "loop"
    /\ UNCHANGED <<w, bins, essp>>

Next == Accept \/ Retreat

Spec == Init /\ [][Next]_vars

-----------------------------------------------------------------------------
(* The value returned: samples[mask], weights[mask] / sum(weights[mask])    *)

\* boolean-mask indexing keeps the original order
OutIds == [k \in 1..Cardinality(mask) |->
              CHOOSE j \in mask : Cardinality({l \in mask : l < j}) = k - 1]
OutNum == [k \in 1..Cardinality(mask) |-> w[OutIds[k]]]     \* returned weight k = OutNum[k]/OutDen
OutDen == S1(w, mask)

-----------------------------------------------------------------------------
(* Properties (C20, ESS and trimming parts) *)

TypeOK ==
    /\ pc \in {"loop", "done"}
    /\ bins \in Bins /\ essp \in EssPct
    /\ mask \subseteq All
    /\ amb \subseteq {"thresh_tie", "thresh_close", "ratio_tie", "ratio_close"}

Done  == pc = "done"
Fresh == pc = "loop" /\ mask = {}     \* the initial states (every evaluated mask is non-empty)

\* properties of (w, bins) alone are checked once per (w, bins): on the final state of the behaviour
\* with the smallest ess.  (TLC evaluates initial states in a single thread, successor states on all
\* workers; every behaviour has exactly one final state.)
Once == Done /\ \A e \in EssPct : essp <= e
EssBounds     == Once => EssBoundsOf(w)
EssScale      == Once => EssScaleOf(w)
EssUniform    == Once => EssUniformOf(w)
EssFracBounds == Once => EssFracBoundsOf(w)
SortedOK      == Once => \A r \in 0..(N - 1) : OrderStat(r) = OrderStatByCount(r)
ExactTieOnly  == Once => \A k \in 0..(bins - 1) : ExactTieAt(k)
\* a strictly interpolated threshold lies strictly between its two neighbours
InterpStrict  == Once => \A k \in 0..(bins - 1) :
                    (Gn(k) # 0 /\ LoVal(k) < HiVal(k)) =>
                        (LoVal(k) * D < ThetaN(k) /\ ThetaN(k) < HiVal(k) * D)

\* the loop index never leaves the grid: for ess <= 1 the loop stops at percentile 0 at the latest.
\* (If it could go below 0, Python's negative indexing would wrap to percentile 99 again and walk
\*  down a second time; at i = -bins-1 `percentiles[i]` raises IndexError - see Indexable.)
NeverNegative == i >= 0

\* at percentile 0 the threshold is the minimum, the mask is everything, the ratio is 1 >= ess
StopsAtZero ==
    (pc = "loop" /\ i = 0) => /\ ThetaN(0) = OrderStat(0) * D
                              /\ MaskAt(0) = All
                              /\ RatioGE(MaskAt(0))

\* the result is a non-empty upper set of the weight order ...
UpperSet ==
    Done => /\ mask # {}
            /\ \A j \in mask : \A k \in All \ mask : w[k] < w[j]

\* ... namely exactly the samples at or above the threshold, and the threshold is at most the maximum
ThresholdSet ==
    Done => LET d == D IN
            /\ mask = {j \in All : w[j] * d >= thN}
            /\ \E j \in All : w[j] * d >= thN

\* ESS of the trimmed weights is at least ess times the untrimmed ESS, and lies in [1, |mask|]
EssRatio ==
    Done => LET s == S1(w, mask) q == S2(w, mask) IN
            /\ RatioGE(mask)
            /\ q <= s * s
            /\ s * s <= Cardinality(mask) * q

\* returned weights are the selected entries renormalised to sum one
Renormalised ==
    Done => /\ OutDen > 0
            /\ SumOn(OutNum, DOMAIN OutNum) = OutDen

\* samples and weights stay aligned: k-th returned sample is position OutIds[k], in input order,
\* and the k-th returned weight is that position's weight
Aligned ==
    Done => /\ {OutIds[k] : k \in DOMAIN OutIds} = mask
            /\ \A k \in DOMAIN OutIds : k > 1 => OutIds[k - 1] < OutIds[k]
            /\ \A k \in DOMAIN OutIds : OutNum[k] = w[OutIds[k]]

\* searched from the top: every higher grid percentile failed the ratio test
FirstFromTop ==
    Done => \A k \in (i + 1)..(bins - 1) : ~RatioGE(MaskAt(k))

\* lowering the percentile only adds samples; each step either breaks or decrements i by one
MaskGrows == [][mask \subseteq mask']_vars
Progress  == [][(pc' = "done" /\ i' = i) \/ (pc' = "loop" /\ i' = i - 1)]_vars

=============================================================================
