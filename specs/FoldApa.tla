---------------------------- MODULE FoldApa ----------------------------
(* Unbounded statement of Fold!CodeAgrees / InUnit / Idempotent for ALL integers k at fixed resolution M
   (Apalache, SMT): the code-shaped reflection equals the triangle wave, lands in 0..M, and is idempotent. *)
EXTENDS Integers

CONSTANT
    \* @type: Int;
    M

VARIABLE
    \* @type: Int;
    k

Wrap(x) == x % M
Tri(x) == LET r == x % (2 * M) IN IF r <= M THEN r ELSE 2 * M - r
CodeReflect(x) ==
    LET n   == x \div M
        rem == x - n * M
    IN  IF n % 2 = 0 THEN rem ELSE M - rem

ConstInit == M \in {1, 2, 4, 8, 16}
Init == k \in Int
Next == k' \in Int

Inv ==
    /\ CodeReflect(k) = Tri(k)
    /\ Tri(k) >= 0 /\ Tri(k) <= M
    /\ Wrap(k) >= 0 /\ Wrap(k) < M
    /\ Tri(Tri(k)) = Tri(k)
    /\ Wrap(Wrap(k)) = Wrap(k)
    /\ Tri(k + 2 * M) = Tri(k) /\ Tri(-k) = Tri(k)
    /\ Wrap(k + M) = Wrap(k)
=============================================================================
