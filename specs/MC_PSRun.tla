------------------------------ MODULE MC_PSRun ------------------------------
(***************************************************************************)
(* Bounded model of PSRun for TLC: the observations that PSRun's actions    *)
(* take as arguments are generated nondeterministically from small sets.    *)
(* ImplVariant selects code-shaped deviations (the pinned tree's behaviour  *)
(* before the fix: commits) so that TLC exhibits the counterexamples at the  *)
(* specification level:                                                     *)
(*   "none"        intended behaviour                                       *)
(*   "rankmodes"   modes indexed by the rank of a label among the labels    *)
(*                 that occur in the trimmed pool (train.py / modes.py)     *)
(*   "unfitted"    predict-only branch taken on an unfitted clusterer       *)
(*   "maskfields"  accept mask applied to u and x but not to logl           *)
(*   "keepinf"     -inf prior draws are not replaced                        *)
(*   "lostcalls"   one sweep's evaluations not added to calls               *)
(*   "loadnothing" resume restores nothing (loaded dictionary discarded)     *)
(***************************************************************************)
EXTENDS PSRun

CONSTANTS NP, G, MaxIter, Clustering, ClusterEvery, Metric, Cap, ImplVariant, MaxCrashes

VARIABLES nextId,   \* next fresh provenance id
          atOne,    \* number of batches committed at beta = 1 (posterior ESS grows with them)
          disk,     \* <<>> or <<snapshot>>: the latest complete checkpoint (a save is atomic, see Checkpoint.tla)
          crashes,  \* number of process deaths so far (bounded by MaxCrashes)
          loaded,   \* <<>> or <<snapshot>>: the checkpoint the running process was resumed from
          bad       \* names of the PSRun clauses violated so far (always {} for the intended behaviour,
                    \* where the clauses are guards; for ImplVariant # "none" the steps are taken
                    \* unguarded, as the code takes them, and the violated clauses accumulate here)

mcvars == <<vars, nextId, atOne, disk, crashes, loaded, bad>>
ckvars == <<disk, crashes, loaded>>

Guarded == ImplVariant = "none"
\* take a step: intended = clauses are guards; code-shaped = update only, record what fails
Take(clauses, update) ==
    IF Guarded THEN All(clauses) /\ update /\ bad' = bad
               ELSE update /\ bad' = bad \cup Failing(clauses)

Cfg == [np |-> NP, one |-> G, target |-> 1, nTotal |-> 1, metric |-> Metric,
        clustering |-> Clustering, clusterEvery |-> ClusterEvery, cap |-> Cap, minSweeps |-> 1, maxSweeps |-> 2, periodic |-> <<1>>, reflective |-> <<>>]

MCInit ==
    /\ pc = "ctor" /\ cfg = Cfg
    /\ iter = 0 /\ beta = 0 /\ ess = 0 /\ logz = 0 /\ wts = 0 /\ calls = 0 /\ evals = 0
    /\ cur = <<>> /\ hist = <<>> /\ clus = [fitted |-> FALSE, K |-> 0] /\ modes = <<>> /\ nsw = 0
    /\ nextId = 1 /\ atOne = 0 /\ bad = {}
    /\ disk = <<>> /\ crashes = 0 /\ loaded = <<>>

Enough == atOne >= 1

\* ---------------------------------------------------------------- observations
RWObs ==
    IF hist = <<>>
    THEN {[iter |-> iter + 1, first |-> TRUE, beta |-> 0, ess |-> 1, logz |-> 0, wts |-> 0,
           essAt |-> 1, logzAt |-> 0, wtsAt |-> 0, refAgrees |-> TRUE, limit |-> 0, essAtLimit |-> 1]}
    ELSE {[iter |-> iter + 1, first |-> FALSE, beta |-> b, ess |-> e, logz |-> b, wts |-> b,
           essAt |-> e, logzAt |-> b, wtsAt |-> b, refAgrees |-> TRUE, limit |-> L, essAtLimit |-> eL]
            : b \in 0..G, e \in 0..2, L \in 0..G, eL \in 0..2}

Iota(k) == [j \in 1..k |-> j - 1]

\* strictly increasing enumeration of a set of naturals as a sequence
RECURSIVE SortedSeq(_)
SortedSeq(S) == IF S = {} THEN <<>>
                ELSE LET m == CHOOSE x \in S : \A y \in S : x <= y
                     IN <<m>> \o SortedSeq(S \ {m})

TRObs ==
    IF beta = 0
    THEN {[branch |-> "Skip", fitted |-> clus.fitted, K |-> clus.K, modes |-> <<0>>, modesOK |-> TRUE, wtsOut |-> wts, modelStable |-> TRUE]}
    ELSE IF ~cfg.clustering
    THEN {[branch |-> "Global", fitted |-> FALSE, K |-> 0, modes |-> <<0>>, modesOK |-> TRUE, wtsOut |-> wts, modelStable |-> TRUE]}
    ELSE LET refit == (iter % cfg.clusterEvery = 0) \/ (ImplVariant # "unfitted" /\ ~clus.fitted)
             Ks    == IF refit THEN 1..(IF cfg.cap > 0 THEN cfg.cap ELSE 2) ELSE {clus.K}
         IN  UNION {{[branch |-> IF refit THEN "Fit" ELSE "PredictOnly",
                      fitted |-> IF refit THEN TRUE ELSE clus.fitted,
                      K |-> k,
                      modes |-> IF ImplVariant = "rankmodes" THEN SortedSeq(L) ELSE Iota(k),
                      modesOK |-> TRUE, wtsOut |-> wts, modelStable |-> TRUE]
                        : L \in IF ImplVariant = "rankmodes" THEN (SUBSET (0..(k - 1))) \ {{}} ELSE {{}}}
                    : k \in Ks}

LabSet == IF cfg.clustering THEN 0..(IF clus.K > 0 THEN clus.K - 1 ELSE 0) ELSE {0}

RSObs ==
    IF beta = 0 THEN {[slots |-> cur, labelsFromModel |-> TRUE]}
    ELSE {[slots |-> [i \in 1..NP |-> Slot(r[i], lb[i], TRUE)], labelsFromModel |-> TRUE] : r \in [1..NP -> Pool], lb \in [1..NP -> LabSet]}

SWObs ==
    {[mask |-> m,
      prop |-> [i \in 1..NP |-> Rec(nextId + i - 1)],
      slots |-> [i \in 1..NP |->
                    IF m[i]
                    THEN IF ImplVariant = "maskfields"
                         THEN Slot([u |-> nextId + i - 1, x |-> nextId + i - 1, l |-> cur[i].rec.l, b |-> nextId + i - 1], cur[i].lab, TRUE)
                         ELSE Slot(Rec(nextId + i - 1), cur[i].lab, TRUE)
                    ELSE cur[i]],
      dEvals |-> NP, sigmaOK |-> TRUE]
        : m \in [1..NP -> BOOLEAN]}

\* ---------------------------------------------------------------- next-state relation
MCReweight ==
    /\ pc = "ready"
    /\ Continue(Enough) /\ iter < MaxIter
    /\ \E o \in RWObs : All(RW_Clauses(o)) /\ ReweightU(o)   \* the oracle is always contract-conforming
    /\ bad' = bad
    /\ UNCHANGED <<nextId, atOne, ckvars>>

MCTrain == pc = "reweighted" /\ (\E o \in TRObs : Take(TR_Clauses(o), TrainU(o))) /\ UNCHANGED <<nextId, atOne, ckvars>>

MCResample == pc = "trained" /\ (\E o \in RSObs : Take(RS_Clauses(o), ResampleU(o))) /\ UNCHANGED <<nextId, atOne, ckvars>>

MCMutatePrior ==
    /\ pc = "resampled" /\ beta = 0
    /\ \E inf \in (SUBSET (1..NP)) \ {1..NP} : \E src \in (1..NP) \ inf :
         LET o == [slots |-> [i \in 1..NP |->
                                   IF i \in inf
                                   THEN IF ImplVariant = "keepinf" THEN Slot(Rec(nextId + i - 1), 0, FALSE)
                                                                   ELSE Slot(Rec(nextId + src - 1), 0, TRUE)
                                   ELSE Slot(Rec(nextId + i - 1), 0, TRUE)],
                      dEvals |-> NP, calls |-> calls + NP, nInf |-> Cardinality(inf),
                      zInHull |-> TRUE, logz |-> logz]
         IN Take(MP_Clauses(o), MutatePriorU(o))
    /\ nextId' = nextId + NP
    /\ UNCHANGED <<atOne, ckvars>>

MCMutateBegin ==
    /\ pc = "resampled" /\ beta > 0
    /\ LET o == [slots |-> cur, modes |-> modes, modesOK |-> TRUE, periodic |-> cfg.periodic, reflective |-> cfg.reflective]
       IN Take(MB_Clauses(o), MutateBeginU(o))
    /\ UNCHANGED <<nextId, atOne, ckvars>>

MCSweep ==
    /\ pc = "mutating" /\ nsw < 2
    /\ \E o \in SWObs : Take(SW_Clauses(o), SweepU(o))
    /\ nextId' = nextId + NP
    /\ UNCHANGED <<atOne, ckvars>>

MCMutateEnd ==
    /\ pc = "mutating" /\ nsw >= 1
    /\ LET o == [slots |-> cur,
                 calls |-> IF ImplVariant = "lostcalls" /\ nsw = 2 THEN calls + NP ELSE calls + nsw * NP,
                 dEvals |-> nsw * NP, steps |-> nsw]
       IN Take(ME_Clauses(o), MutateEndU(o))
    /\ UNCHANGED <<nextId, atOne, ckvars>>

MCCommit ==
    /\ pc = "mutated"
    /\ LET o == [batch |-> [i \in DOMAIN cur |-> cur[i].rec], histLen |-> Len(hist) + 1,
                 keyLens |-> <<Len(hist) + 1>>, prefixSame |-> TRUE, blobsOK |-> TRUE, scalarsOK |-> TRUE]
       IN Take(CM_Clauses(o), CommitU(o))
    /\ atOne' = IF beta = cfg.one THEN atOne + 1 ELSE atOne
    /\ UNCHANGED <<nextId, ckvars>>

MCTerminate ==
    /\ pc = "ready" /\ ~Continue(Enough) /\ hist # <<>>
    /\ LET o == [nearOne |-> (beta = cfg.one), essPost |-> 1, evid |-> 7, evidAt |-> 7, callsReported |-> calls, callsSeen |-> evals, histSame |-> TRUE]
       IN Take(TM_Clauses(o), TerminateU(o))
    /\ UNCHANGED <<nextId, atOne, ckvars>>

\* ---------------------------------------------------------------- checkpoints, process death, resume
MCSave ==
    /\ pc = "ready" /\ hist # <<>> /\ MaxCrashes > 0
    /\ disk' = <<Snap>>
    /\ UNCHANGED <<vars, nextId, atOne, crashes, loaded, bad>>

\* the process dies at any step boundary (inside a save is Checkpoint.tla's business)
MCCrash ==
    /\ pc \notin {"ctor", "done", "dead"} /\ crashes < MaxCrashes /\ disk # <<>>
    /\ pc' = "dead" /\ crashes' = crashes + 1
    /\ UNCHANGED <<cfg, iter, beta, ess, logz, wts, calls, evals, cur, hist, clus, modes, nsw, nextId, atOne, disk, loaded, bad>>

MCResume ==
    /\ pc = "dead" /\ disk # <<>>
    /\ IF ImplVariant = "loadnothing" THEN ResumeNothingU(disk[1]) ELSE ResumeU(disk[1])
    /\ loaded' = disk
    /\ atOne' = Cardinality({t \in DOMAIN disk[1].hist : disk[1].hist[t].beta = cfg.one})
    /\ UNCHANGED <<nextId, disk, crashes, bad>>

\* named deviation of the pinned code (PSRun!RunAgain): run() called again on a finished sampler resets the counters and keeps the
\* history.  Enabled only in the variant "runagain", where TLC must REFUTE the cross-run readings of the history invariants
\* (HistBetaMonotone / OneBatchPerIteration / HistIters hold within one run, not across two) - a witness, not a defect of a property.
MCRunAgain == ImplVariant = "runagain" /\ RunAgain /\ atOne' = 0 /\ UNCHANGED <<nextId, ckvars, bad>>

MCNext ==
    \/ (InitFresh /\ UNCHANGED <<nextId, atOne, ckvars, bad>>)
    \/ MCRunAgain
    \/ MCSave \/ MCCrash \/ MCResume
    \/ MCReweight \/ MCTrain \/ MCResample \/ MCMutatePrior \/ MCMutateBegin
    \/ MCSweep \/ MCMutateEnd \/ MCCommit \/ MCTerminate

MCSpec == MCInit /\ [][MCNext]_mcvars

\* a run that may still continue must be able to take a step (no step of the pipeline can get stuck)
NoStuck == (pc # "done" /\ iter < MaxIter) => ENABLED MCNext

NoClauseFails == bad = {}

\* C08: right after a resume everything that was saved is there again, and at every later state the restored history is
\* a prefix of the history (iteration numbering and call counting continue: OneBatchPerIteration / CallsExact keep holding)
ResumeExact ==
    (loaded # <<>>) =>
        /\ Len(hist) >= Len(loaded[1].hist)
        /\ SubSeq(hist, 1, Len(loaded[1].hist)) = loaded[1].hist
        /\ iter >= loaded[1].iter /\ calls >= loaded[1].calls /\ beta >= loaded[1].beta
NeverResumed == loaded = <<>>

\* reachability witnesses (must be VIOLATED when listed as invariants: non-vacuity)
NeverDone      == pc # "done"
NeverTwoModes  == Len(modes) < 2
=============================================================================
