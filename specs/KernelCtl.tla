----------------------------- MODULE KernelCtl -----------------------------
(***************************************************************************)
(* The CONTROLLER of one mutation call (tempest/mcmc.py, BaseMCMCRunner.run *)
(* and the two _adapt_sigma laws): the sweep counter, the per-cluster step *)
(* sizes and the stopping rule.  This is behaviour BEYOND the listed       *)
(* properties (the kernels' invariance, C03, is stated for fixed kernel    *)
(* parameters); it is specified because it decides how much work every     *)
(* iteration of the sampler does, and it is bound to the code by replay.   *)
(*                                                                         *)
(* Arithmetic: step sizes are integers over the common denominator D       *)
(* (sigma = sig / D).  One sweep of the code does, in this order:          *)
(*     iteration += 1                                                      *)
(*     for every OCCUPIED cluster c:                                       *)
(*         rate = 1 / (iteration + 1)                                      *)
(*         tpCN: sigma_c = clip(sigma_c + rate (alpha_c - 0.234), 0, min(sigma_0, 0.99)) *)
(*         RWM : sigma_c =      sigma_c + rate (alpha_c - 0.234)          *)
(*     stop iff iteration >= int(min(max(n_min, adaptive), n_max))         *)
(*         adaptive = n_min (0.234 / max(0.01, acc)) (sigma_0 / max(1e-6, wsigma))^2 *)
(* alpha_c is the mean acceptance PROBABILITY of the walkers of cluster c  *)
(* (here a multiple of 1/4), acc the accepted FRACTION of all walkers.     *)
(* wsigma is "the average step size weighted by cluster population".       *)
(*                                                                         *)
(* TLC (32-bit integers) cannot evaluate the squared ratio, so the stop    *)
(* decision is an oracle constrained by what the rule implies for every    *)
(* value of `adaptive`:  never before n_min sweeps, always at n_max; the   *)
(* exact threshold is compared by the replay harness in rational           *)
(* arithmetic (near-ties excluded).  The two readings of wsigma -          *)
(* intended: sizes of the occupied clusters paired with THEIR step sizes;  *)
(* pinned code: paired with the FIRST so-many step sizes                   *)
(* (`sigmas[:len(cluster_sizes)]`) - differ only when a lower-numbered     *)
(* cluster is empty; the harness reports such behaviours as the named      *)
(* deviation `wsigma-first-k` (never a violation of a listed property).    *)
(***************************************************************************)
EXTENDS Integers, Sequences, FiniteSets, TLC

CONSTANTS
    Kernel,     \* "tpcn" | "rwm"
    D,          \* common denominator of step sizes; divisible by 500 * k for k in 2..MaxIt+1
    S0,         \* sigma_0 * D   (2.38 / sqrt(n_dim); rational for n_dim in {1, 4})
    Sizes,      \* sequence: population of each cluster (0 = empty)
    NMin, NMax, \* n_steps * n_dim,  n_max_steps * n_dim  (in sweeps)
    AlphaQ      \* set of admissible numerators of alpha_c over 4 (subset of 0..4)

ASSUME \A k \in 2..(NMax + 1) : D % (500 * k) = 0
ASSUME D % 100 = 0

VARIABLES it, sig, stopped, trail
vars == <<it, sig, stopped, trail>>

NC == Len(Sizes)
Occupied == {c \in 1..NC : Sizes[c] > 0}
Cap == IF 99 * D < 100 * S0 THEN (99 * D) \div 100 ELSE S0      \* min(sigma_0, 0.99) * D   (D divisible by 100)
Floor == IF NMin < NMax THEN NMin ELSE NMax                    \* the least number of sweeps: min(n_min, n_max)
Clip(v, lo, hi) == IF v < lo THEN lo ELSE IF v > hi THEN hi ELSE v

\* rate (alpha - 0.234) D  with alpha = a/4, rate = 1/(k):   D (125 a - 117) / (500 k)
Delta(a, k) == ((D \div (500 * k)) * (125 * a - 117))

Init ==
    /\ it = 0
    /\ sig = [c \in 1..NC |-> IF Kernel = "tpcn" THEN Cap ELSE S0]
    /\ stopped = FALSE
    /\ trail = <<>>

\* one sweep; al: occupied cluster -> numerator of alpha over 4; st: the stop decision taken by the code
Sweep(al, st) ==
    /\ ~stopped
    /\ it' = it + 1
    /\ sig' = [c \in 1..NC |->
                 IF c \notin Occupied THEN sig[c]
                 ELSE IF Kernel = "tpcn" THEN Clip(sig[c] + Delta(al[c], it' + 1), 0, Cap)
                 ELSE sig[c] + Delta(al[c], it' + 1)]
    \* what the rule implies whatever `adaptive` is
    \* (n_max < n_min is a legal configuration: the cap wins, min(max(n_min, .), n_max) = n_max)
    /\ (it' < Floor => ~st)
    /\ (it' >= NMax => st)
    /\ stopped' = st
    /\ trail' = Append(trail, [al |-> al, st |-> st])

Next == \E al \in [Occupied -> AlphaQ], st \in BOOLEAN : Sweep(al, st)

Spec == Init /\ [][Next]_vars

-----------------------------------------------------------------------------
TypeOK == it \in 0..NMax /\ stopped \in BOOLEAN /\ \A c \in 1..NC : sig[c] \in Int

\* tpCN step sizes stay inside [0, min(sigma_0, 0.99)]
TpcnBounds == Kernel = "tpcn" => \A c \in 1..NC : sig[c] >= 0 /\ sig[c] <= Cap

\* the loop makes at least n_min and at most n_max sweeps
StopWindow == stopped => (it >= Floor /\ it <= NMax)
Terminates == it <= NMax /\ (it = NMax => stopped)

\* the step size of a cluster without walkers is never touched
EmptyUntouched == \A c \in 1..NC : c \notin Occupied => sig[c] = (IF Kernel = "tpcn" THEN Cap ELSE S0)

\* diminishing adaptation: one sweep moves a step size by at most rate * max(0.234, 0.766)
Diminishing == [][\A c \in 1..NC : LET d == sig'[c] - sig[c] IN
                    (d <= (D \div (500 * (it' + 1))) * 383) /\ (-d <= (D \div (500 * (it' + 1))) * 117)]_vars

\* NOT an invariant (witness wanted): the RWM step size is not clipped and can reach zero or change sign after enough
\* sweeps without acceptance (harmless for the symmetric proposal, but the step-count heuristic then sees max(1e-6, .))
RwmPositive == Kernel = "rwm" => \A c \in 1..NC : sig[c] > 0

Done == stopped
=============================================================================
