---------------------------- MODULE ResampleObs ----------------------------
(***************************************************************************)
(* Placeholder.  checks/c06.py generates this module for every run (passed *)
(* to TLC through `extra_modules`, which overwrites this file in the       *)
(* scratch copy of the spec directory): the outcomes observed from the     *)
(* real code, to be judged by ResampleTrace.tla.                           *)
(*                                                                         *)
(*  SysCases    <<[n, a, Q, k, out, err]>>      exact integer inputs of    *)
(*              Resample.tla and what tools.systematic_resample returned   *)
(*              (out: 1-based indices; err: an exception was raised)       *)
(*  StructCases <<[n, nw, zero, out, err, rows]>>  outcomes on inputs that *)
(*              exist only as doubles (IEEE corner cases, posterior(),     *)
(*              Resampler.run with resample='syst'): nw = number of        *)
(*              weights, zero = set of zero-weight indices, rows = for     *)
(*              every resampled field the row ids it carries               *)
(*  CellCases   <<[n, a, Q, ks, outs]>>  for one (n, w): the offsets ks of a *)
(*              finite cover of [0,1) and the index vector the real        *)
(*              routine returned at each of them (counting identity)       *)
(*  MultCases   <<[n, nw, zero, r, cdf, lookup, out, err, rows]>>          *)
(*              Resampler.run(resample='mult'): r / cdf are the order      *)
(*              ranks of the regenerated uniforms and of the cumulative    *)
(*              distribution; lookup = the stream was consumed exactly as  *)
(*              the model says, so the lookup can be validated             *)
(***************************************************************************)
SysCases == <<
  [n |-> 2, a |-> <<2, 2>>, Q |-> 4, k |-> 1, out |-> <<1, 2>>, err |-> FALSE]
>>
StructCases == <<
  [n |-> 2, nw |-> 3, zero |-> {1}, out |-> <<2, 3>>, err |-> FALSE, rows |-> << <<2, 3>> >>]
>>
CellCases == <<
  [n |-> 1, a |-> <<1, 1>>, Q |-> 2, ks |-> <<0, 1, 2, 3>>, outs |-> << <<1>>, <<1>>, <<2>>, <<2>> >>]
>>
MultCases == <<
  [n |-> 2, nw |-> 3, zero |-> {2}, r |-> <<1, 4>>, cdf |-> <<2, 2, 5>>, lookup |-> TRUE,
   out |-> <<1, 3>>, err |-> FALSE, rows |-> << <<1, 3>>, <<1, 3>> >>]
>>
=============================================================================
