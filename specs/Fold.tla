------------------------------- MODULE Fold -------------------------------
(***************************************************************************)
(* Boundary maps of tempest.mcmc (apply_boundary_conditions / check_bounds) *)
(* on the integer lattice: a coordinate value is k/M, k an integer.         *)
(*                                                                          *)
(* Two definitions of the reflective map are given: the *intended* one (the *)
(* period-2 triangle wave) and the one *as coded* (floor -> reflection      *)
(* count -> parity flip).  TLC checks that they agree on the lattice; the   *)
(* harness replays every enumerated state into the real functions.          *)
(*                                                                          *)
(* The module is a (small) state machine so that TLC's state dump is the    *)
(* list of test cases: in -> folded -> checked.                             *)
(***************************************************************************)
EXTENDS Integers, Sequences, FiniteSets, TLC

CONSTANTS Ms,       \* set of lattice resolutions M
          Span,     \* k ranges over -Span*M .. Span*M
          Dims,     \* set of vector dimensions explored
          MaxRows,  \* 1: only 1-D inputs; 2: also 2-row 2-D inputs (rows folded independently)
          Span2     \* range multiplier used for 2-row inputs (state-space control)

VARIABLES pc, M, kinds, rows, out, ok

vars == <<pc, M, kinds, rows, out, ok>>

Kinds == {"hard", "periodic", "reflective"}

-----------------------------------------------------------------------------
(* The maps *)

Wrap(k, m) == k % m

Tri(k, m) == LET r == k % (2 * m) IN IF r <= m THEN r ELSE 2 * m - r

\* as coded: n_reflect = floor(val); remainder = val - n_reflect; flip when n_reflect is odd
CodeReflect(k, m) ==
    LET n   == k \div m
        rem == k - n * m
    IN  IF n % 2 = 0 THEN rem ELSE m - rem

FoldCoord(kind, k, m) ==
    CASE kind = "hard"       -> k
      [] kind = "periodic"   -> Wrap(k, m)
      [] kind = "reflective" -> Tri(k, m)

FoldVec(ks, v, m) == [i \in DOMAIN v |-> FoldCoord(ks[i], v[i], m)]

\* the bounds check looks only at coordinates that are neither periodic nor reflective
InBounds(ks, v, m) == \A i \in DOMAIN v : ks[i] = "hard" => (0 <= v[i] /\ v[i] <= m)

-----------------------------------------------------------------------------
(* State machine: one input (1 or 2 rows), folded, then bounds-checked *)

Range(m) == (-Span * m) .. (Span * m)

Init ==
    /\ pc = "in"
    /\ M \in Ms
    /\ \E d \in Dims :
         /\ (d >= 3 => M <= 2)
         /\ kinds \in [1..d -> Kinds]
         /\ \E nr \in 1..MaxRows :
              \* 2-row inputs only on the two coarsest lattices (state-space control)
              /\ (nr = 2 => (M <= 2 /\ d <= 2))
              /\ rows \in [1..nr -> [1..d -> IF nr = 1 THEN Range(M) ELSE (-Span2 * M)..(Span2 * M)]]
    /\ out = <<>>
    /\ ok = <<>>

Apply ==
    /\ pc = "in"
    /\ out' = [r \in DOMAIN rows |-> FoldVec(kinds, rows[r], M)]
    /\ pc' = "folded"
    /\ UNCHANGED <<M, kinds, rows, ok>>

Check ==
    /\ pc = "folded"
    /\ ok' = [r \in DOMAIN out |-> InBounds(kinds, out[r], M)]
    /\ pc' = "checked"
    /\ UNCHANGED <<M, kinds, rows, out>>

Next == Apply \/ Check

Spec == Init /\ [][Next]_vars

-----------------------------------------------------------------------------
(* Properties (C16) *)

TypeOK ==
    /\ pc \in {"in", "folded", "checked"}
    /\ M \in Ms
    /\ DOMAIN rows \subseteq 1..MaxRows

Folded == pc \in {"folded", "checked"}

\* non-designated coordinates are untouched
Untouched ==
    Folded => \A r \in DOMAIN rows : \A i \in DOMAIN kinds :
                 kinds[i] = "hard" => out[r][i] = rows[r][i]

\* designated coordinates land in [0,1]; periodic ones in [0,1)
InUnit ==
    Folded => \A r \in DOMAIN rows : \A i \in DOMAIN kinds :
                 /\ kinds[i] = "periodic"   => (0 <= out[r][i] /\ out[r][i] < M)
                 /\ kinds[i] = "reflective" => (0 <= out[r][i] /\ out[r][i] <= M)

\* periodic = value modulo 1 : congruent to the input and in [0,1)
\* reflective = triangle wave: congruent to +k or -k modulo 2
Congruent ==
    Folded => \A r \in DOMAIN rows : \A i \in DOMAIN kinds :
                 /\ kinds[i] = "periodic"   => (rows[r][i] - out[r][i]) % M = 0
                 /\ kinds[i] = "reflective" => \/ (rows[r][i] - out[r][i]) % (2 * M) = 0
                                               \/ (rows[r][i] + out[r][i]) % (2 * M) = 0

\* folding twice = folding once
Idempotent ==
    Folded => \A r \in DOMAIN rows : FoldVec(kinds, out[r], M) = out[r]

\* the code-shaped reflection is the triangle wave
CodeAgrees ==
    pc = "in" => \A r \in DOMAIN rows : \A i \in DOMAIN kinds :
                    CodeReflect(rows[r][i], M) = Tri(rows[r][i], M)

\* bounds check accepts exactly when all remaining coordinates are in [0,1]
BoundsIff ==
    pc = "checked" => \A r \in DOMAIN out :
        ok[r] <=> (\A i \in DOMAIN kinds : kinds[i] = "hard" => (0 <= out[r][i] /\ out[r][i] <= M))

\* after folding, a vector with no hard coordinate is always accepted
AllSpecialAccepted ==
    pc = "checked" => ((\A i \in DOMAIN kinds : kinds[i] # "hard") => \A r \in DOMAIN ok : ok[r])

-----------------------------------------------------------------------------
(* Symmetry of a symmetric random walk on the folded space.  Points are the  *)
(* cell centres (2i+1)/(2m) i.e. odd numerators at resolution 2m; steps are  *)
(* even numerators so that cell centres map to cell centres.  For every pair *)
(* a, b and every step size s the number of signed steps +-s that take a to  *)
(* b equals the number that take b to a (so any symmetric step law gives a   *)
(* symmetric proposal on the folded space).  On the vertex lattice this      *)
(* fails at the end points (they carry half a cell) - see VertexAsymmetric.  *)

Cells(m) == {k \in 0..(2 * m) : k % 2 = 1}
Steps(m) == {s \in 0..(Span * 2 * m) : s % 2 = 0}

Hits(F(_, _), a, s, b, m2) ==
    (IF F(a + s, m2) = b THEN 1 ELSE 0) + (IF F(a - s, m2) = b THEN 1 ELSE 0)

SymmetricOnCells(m) ==
    \A a, b \in Cells(m) : \A s \in Steps(m) :
        /\ Hits(Wrap, a, s, b, 2 * m) = Hits(Wrap, b, s, a, 2 * m)
        /\ Hits(Tri, a, s, b, 2 * m) = Hits(Tri, b, s, a, 2 * m)

\* documented non-property: on the vertex lattice the reflective map is not symmetric
VertexAsymmetric(m) ==
    \E a, b \in 0..m : \E s \in 0..(2 * m) : Hits(Tri, a, s, b, m) # Hits(Tri, b, s, a, m)

ASSUME SymmetryOfFoldedWalk == \A m \in Ms : SymmetricOnCells(m)
ASSUME VertexLatticeRemark  == \A m \in Ms : m >= 2 => VertexAsymmetric(m)

=============================================================================
