------------------------------ MODULE HGMTrace ------------------------------
(***************************************************************************)
(* Trace validation for HGMSplit (binding direction A).                     *)
(*                                                                          *)
(* A trace is what a logging subclass of GaussianMixture and a wrapper of   *)
(* _compute_bic_tolerance observed during one real                          *)
(* HierarchicalGaussianMixture.fit, followed by the final labelling and the *)
(* labels returned by predict:                                              *)
(*   "E"  one candidate evaluation: cluster size, order ranks of the BIC    *)
(*        improvement and of its threshold, whether child.predict was       *)
(*        called, and the 0/1 labels it returned (by position in the        *)
(*        cluster, whose indices the code keeps in increasing order)        *)
(*   "K"  n_clusters_            "L"  labels_                               *)
(*   "P"  one distinct label value returned by predict on the query set     *)
(* Only the oracle answers are taken from the trace; the split loop itself  *)
(* (which cluster is evaluated next, which split is accepted, when the loop *)
(* stops, the labels) is computed by the ORIGINAL HGMSplit actions, which   *)
(* are conjoined here, so every HGMSplit invariant is evaluated on every    *)
(* state of every validated trace.  A trace that cannot be matched gets     *)
(* stuck; accepted traces print <<"ACCEPTED", tid>>.                        *)
(*                                                                          *)
(* HGMTraceData.tla (generated per batch by checks/c15.py; the copy in the  *)
(* repository is a two-trace example) defines                               *)
(*   Traces == << [n, minPts, maxIter, ev : Seq(event)], ... >>             *)
(***************************************************************************)
EXTENDS HGMSplit, SequencesExt, HGMTraceData

VARIABLES tid, l

tvars == <<tid, l>>
allvars == <<vars, tid, l>>

T == Traces[tid]
HasEv == l <= Len(T.ev)
Ev == T.ev[l]

TraceInit ==
    /\ tid \in 1..Len(Traces)
    /\ l = 1
    /\ InitWith(Traces[tid].n, Traces[tid].minPts, Traces[tid].maxIter)

\* steps of the loop that consult no oracle are not logged
Internal ==
    /\ (BeginIter \/ CapStop \/ SkipSmall \/ AcceptBest \/ Stop \/ Finalize)
    /\ UNCHANGED tvars

SortedIds(C) == SetToSortSeq(C, LAMBDA a, b : a < b)

TraceEval ==
    /\ HasEv /\ Ev.ev = "E"
    /\ pc = "for" /\ idx <= Len(clusters)
    /\ Cardinality(clusters[idx]) = Ev.size           \* the code evaluates the cluster the spec evaluates
    /\ Ev.asked = Asked(Ev.imp, Ev.thr)               \* and asks for a partition exactly when the spec does
    /\ LET srt == SortedIds(clusters[idx])
           c1  == IF Ev.asked THEN {srt[j] : j \in {i \in 1..Len(srt) : Ev.lab[i] = 0}} ELSE {}
       IN  /\ (Ev.asked => Len(Ev.lab) = Ev.size /\ \A i \in 1..Len(srt) : Ev.lab[i] \in {0, 1})
           /\ EvaluateWith(Ev.imp, Ev.thr, c1)
    /\ l' = l + 1 /\ tid' = tid

TraceK ==
    /\ HasEv /\ Ev.ev = "K"
    /\ pc = "done"
    /\ K = Ev.K
    /\ l' = l + 1 /\ UNCHANGED <<vars, tid>>

TraceLabels ==
    /\ HasEv /\ Ev.ev = "L"
    /\ pc = "done"
    /\ labels = Ev.labels
    /\ l' = l + 1 /\ UNCHANGED <<vars, tid>>

TracePredict ==
    /\ HasEv /\ Ev.ev = "P"
    /\ PredictWith([kind |-> "any", k |-> -1], Ev.label)
    /\ l' = l + 1 /\ tid' = tid

TraceAccept ==
    /\ ~HasEv
    /\ pc \in {"done", "predicted"}
    /\ PrintT(<<"ACCEPTED", tid>>)
    /\ pc' = "accepted"
    /\ UNCHANGED <<n, minPts, maxIter, clusters, iter, idx, best, log, splits, labels, K, query, pred, tid, l>>

TraceNext == Internal \/ TraceEval \/ TraceK \/ TraceLabels \/ TracePredict \/ TraceAccept

TraceSpec == TraceInit /\ [][TraceNext]_allvars

\* the position in the trace only moves forward, and an accepted trace was read to its end
TraceProgress == pc = "accepted" => l = Len(T.ev) + 1

=============================================================================
