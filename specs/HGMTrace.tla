------------------------------ MODULE HGMTrace ------------------------------
(***************************************************************************)
(* Trace validation for HGMSplit (binding direction A).                     *)
(*                                                                          *)
(* What is validated is the DECISIONS of one real                           *)
(* HierarchicalGaussianMixture.fit, not its protocol of mixture-model       *)
(* calls.  From everything a logging subclass of GaussianMixture (and a     *)
(* wrapper of _compute_bic_tolerance) saw during the fit - in whatever      *)
(* order, however often - checks/c15.py builds the OBSERVED ORACLE as a     *)
(* function of the cluster:                                                 *)
(*   orc  one entry per cluster whose improvement was observed:             *)
(*        ids   the cluster (set of point ids)                              *)
(*        imp   order rank of  bic(1 component) - bic(2 components)         *)
(*        thr   order rank of the cluster's threshold                       *)
(*        known the two-component model of this cluster was asked for a     *)
(*              partition;  c1 = the points it labelled 0                   *)
(* and the observed OUTCOME:                                                *)
(*   K         n_clusters_           labels    labels_                      *)
(*   preds     the distinct labels returned by predict on the query set     *)
(*   splits    the accepted splits <<iteration, parent position>> parsed    *)
(*             from the verbose output (hasSplits = FALSE: nothing could be *)
(*             parsed, not compared - wording is not part of the property)  *)
(*                                                                          *)
(* The specification is run DETERMINISTICALLY with that oracle by the       *)
(* ORIGINAL HGMSplit actions, which are conjoined here (every HGMSplit      *)
(* invariant is evaluated on every state), and its final K / labelling /    *)
(* accepted splits are compared with the outcome.  The property fixes the   *)
(* PARTITION of the training points, not the numbering of the clusters: the *)
(* labelling is compared up to the relabelling Pi (spec label -> code       *)
(* label), which must be a bijection on 0..K-1; the printed parent          *)
(* positions of the accepted splits depend on the numbering and are only    *)
(* compared when Pi is the identity (otherwise the iterations only).        *)
(* Verdicts are total; one line <<"VERDICT", tid, v, lowerWins, relabelled>>*)
(* is printed per trace (the two flags are evidence about the run):         *)
(*   "accepted"                                                             *)
(*   "n-clusters" | "labels" | "accepted-splits" | "predict-range"          *)
(*        the first clause in which outcome and specification differ        *)
(*   "output-range"  (only judged when the run is inconclusive) the outcome *)
(*        itself breaks the property: K outside 1..cap, a label or a        *)
(*        prediction outside [0, K)                                         *)
(*   "inconclusive:improvement" | "inconclusive:partition"                  *)
(*        the specification needs an oracle value the code never computed:  *)
(*        the trace cannot be bound (counted, not a violation)              *)
(*                                                                          *)
(* HGMTraceData.tla (generated per batch by checks/c15.py; the copy in the  *)
(* repository is a two-trace example) defines  Traces == << ... >>.         *)
(***************************************************************************)
EXTENDS HGMSplit, HGMTraceData

VARIABLES tid,      \* the trace this behaviour validates
          verdict,  \* "none" until judged
          todo      \* predicted labels still to be taken through Predict

tvars == <<tid, verdict, todo>>
allvars == <<vars, tid, verdict, todo>>

T == Traces[tid]

TraceInit ==
    /\ tid \in 1..Len(Traces)
    /\ verdict = "none"
    /\ todo = Traces[tid].preds
    /\ InitWith(Traces[tid].n, Traces[tid].minPts, Traces[tid].maxIter)

\* steps of the loop that consult no oracle
Internal ==
    /\ verdict = "none"
    /\ (BeginIter \/ CapStop \/ SkipSmall \/ AcceptBest \/ Stop \/ Finalize)
    /\ UNCHANGED tvars

\* the observed answer for cluster C
Entries(C) == {i \in 1..Len(T.orc) : T.orc[i].ids = C}
Entry(C) == T.orc[CHOOSE i \in Entries(C) : TRUE]

\* evidence: in some pass two clusters qualify, the LOWER-positioned one is split and the other one in a later pass
LowerWins ==
    \E s \in 1..Len(splits), e \in 1..Len(log) :
        /\ log[e].it = splits[s].it /\ log[e].pos > splits[s].parent
        /\ Gt(log[e].imp, log[e].thr)
        /\ \E s2 \in (s + 1)..Len(splits) : splits[s2].ids = log[e].ids

\* the relabelling spec label -> code label read off one point of every spec cluster (clusters are never empty)
LabelsOK == Len(T.labels) = n /\ \A p \in 1..n : T.labels[p] \in 0..(K - 1)
Pi == [j \in 0..(K - 1) |-> T.labels[CHOOSE p \in clusters[j + 1] : TRUE]]
SamePartition ==
    /\ LabelsOK
    /\ \A p \in 1..n : T.labels[p] = Pi[labels[p]]            \* no spec cluster is split over two code labels
    /\ \A i, j \in 0..(K - 1) : i # j => Pi[i] # Pi[j]          \* no two spec clusters are merged under one code label
Relabelled == pc = "done" /\ T.K = K /\ SamePartition /\ \E j \in 0..(K - 1) : Pi[j] # j

Judge(v) == verdict' = v /\ PrintT(<<"VERDICT", tid, v, pc = "done" /\ LowerWins, Relabelled>>)

\* the outcome on its own: K within the cap, every point one label in [0, K), predictions in [0, K)
OutputSane ==
    /\ T.K \in 1..(maxIter + 1)
    /\ Len(T.labels) = n
    /\ \A p \in 1..n : T.labels[p] \in 0..(T.K - 1)
    /\ T.preds \subseteq 0..(T.K - 1)

Need == pc = "for" /\ idx <= Len(clusters) /\ Cardinality(clusters[idx]) >= minPts /\ verdict = "none"

\* one candidate evaluation, answered by the observed oracle
TraceEval ==
    /\ Need
    /\ Entries(clusters[idx]) # {}
    /\ LET e == Entry(clusters[idx])
           asked == Asked(e.imp, e.thr)
       IN  /\ (asked => e.known)
           /\ EvaluateWith(e.imp, e.thr, IF asked THEN e.c1 ELSE {})
    /\ UNCHANGED tvars

\* the specification needs an answer the code never computed
TraceUnbound ==
    /\ Need
    /\ LET C == clusters[idx]
           what == IF Entries(C) = {} THEN "inconclusive:improvement"
                   ELSE IF Asked(Entry(C).imp, Entry(C).thr) /\ ~Entry(C).known THEN "inconclusive:partition"
                   ELSE "none"
       IN  /\ what # "none"
           /\ pc' = "inconclusive"
           /\ Judge(IF OutputSane THEN what ELSE "output-range")
    /\ UNCHANGED <<n, minPts, maxIter, clusters, iter, idx, best, oracle, log, splits, labels, K, query, pred, tid, todo>>

\* specification finished: compare with the outcome
SpecSplits == [s \in 1..Len(splits) |-> <<splits[s].it, splits[s].parent>>]
SpecSplitIters == [s \in 1..Len(splits) |-> splits[s].it]
CodeSplitIters == [s \in 1..Len(T.splits) |-> T.splits[s][1]]

Clause ==
    IF T.K # K THEN "n-clusters"
    ELSE IF ~SamePartition THEN "labels"
    ELSE IF T.hasSplits /\ (IF Relabelled THEN CodeSplitIters # SpecSplitIters ELSE T.splits # SpecSplits) THEN "accepted-splits"
    ELSE IF ~(T.preds \subseteq 0..(K - 1)) THEN "predict-range"
    ELSE "accepted"

TraceJudge ==
    /\ pc = "done" /\ verdict = "none"
    /\ Judge(Clause)
    /\ pc' = IF Clause = "accepted" THEN "done" ELSE "rejected"
    /\ UNCHANGED <<n, minPts, maxIter, clusters, iter, idx, best, oracle, log, splits, labels, K, query, pred, tid, todo>>

Min(S) == CHOOSE x \in S : \A y \in S : x <= y

\* every distinct predicted label goes through the specification's Predict
TracePredict ==
    /\ verdict = "accepted" /\ todo # {}
    /\ PredictWith([kind |-> "any", k |-> -1], Min(todo))
    /\ todo' = todo \ {Min(todo)}
    /\ UNCHANGED <<tid, verdict>>

TraceAccept ==
    /\ verdict = "accepted" /\ todo = {}
    /\ pc \in {"done", "predicted"}
    /\ pc' = "accepted"
    /\ UNCHANGED <<n, minPts, maxIter, clusters, iter, idx, best, oracle, log, splits, labels, K, query, pred, tid, verdict, todo>>

TraceNext == Internal \/ TraceEval \/ TraceUnbound \/ TraceJudge \/ TracePredict \/ TraceAccept

TraceSpec == TraceInit /\ [][TraceNext]_allvars

\* a behaviour ends judged, and an accepted one only after every predicted label went through Predict
TraceProgress ==
    /\ (pc \in {"accepted", "rejected", "inconclusive"} => verdict # "none")
    /\ (pc = "accepted" => verdict = "accepted" /\ todo = {})

=============================================================================
